/*
 * trusim_preload.c — the half of the simulator that lives inside the simulated process.
 *
 * Loaded with LD_PRELOAD into a fresh `truth-core` process.  It owns
 *   (1) the entropy source: getrandom() is answered from TRUSIM_KEY, so every std RandomState
 *       (hash-map iteration order) in the process is a pure function of that key;
 *   (2) the libc file-I/O boundary for paths inside the sandbox (TRUSIM_ROOT, or any relative
 *       path: the cwd of a simulated process is always its sandbox): open/read/write/lseek/
 *       close/mkdir are counted, logged and faulted according to TRUSIM_PLAN.
 *
 * Everything is done with raw syscalls; no allocation, no PRNG draw and no clock read happens
 * in any logging path.  Without TRUSIM_* in the environment the shim is inert.
 *
 * Plan grammar (TRUSIM_PLAN, rules separated by ';'):
 *   at=SEQ:ERRNO      one-shot error at tracked event number SEQ (0-based)
 *   at=SEQ:short=N    transfer at most N bytes at event SEQ (read/write only)
 *   full=N            sticky ENOSPC once N bytes have been written to tracked fds
 *   eintr=P           every P-th eligible read/write/open first fails with EINTR (P>=1)
 *   chunk=N           every tracked read/write transfers at most N bytes
 *   rchunk=N / wchunk=N   same, reads only / writes only
 *
 * Event log (TRUSIM_LOG), one line per tracked call in program order:
 *   <seq|-> <op> <fd> <path|-> <requested> <returned> <errno> <inj|real>
 */
#define _GNU_SOURCE
#include <dlfcn.h>
#include <errno.h>
#include <fcntl.h>
#include <stdarg.h>
#include <stdint.h>
#include <stdio.h>
#include <stdlib.h>
#include <string.h>
#include <sys/resource.h>
#include <sys/stat.h>
#include <limits.h>
#include <sys/syscall.h>
#include <sys/types.h>
#include <sys/uio.h>
#include <unistd.h>

#define MAXFD 1024
#define MAXRULES 16
#define LOGFD 1000

struct rule { long seq; int err; long short_n; int used; long long lie_size; };

static int g_active = 0;          /* tracking on */
static unsigned char g_eof[4096];
static int g_have_key = 0;
static uint64_t g_key_state = 0;
static uint64_t g_key_initial = 0;
static char g_root[512];
static size_t g_root_len = 0;
static int g_logfd = -1;
static long g_seq = 0;

static struct rule g_rules[MAXRULES];
static int g_nrules = 0;
static long g_full = -1;          /* byte budget, -1 = none */
static long g_written = 0;
static long g_eintr = 0;          /* period, 0 = none */
static long g_eintr_ctr = 0;
static int g_prev_was_eintr = 0;
static long g_rchunk = 0, g_wchunk = 0;

static unsigned char g_tracked[MAXFD];
static char g_paths[MAXFD][96];

static long raw(long n, long a, long b, long c, long d) { return syscall(n, a, b, c, d); }

static int errno_by_name(const char *s, size_t n) {
#define E(x) if (n == sizeof(#x) - 1 && !memcmp(s, #x, n)) return x;
    E(EIO) E(ENOSPC) E(EACCES) E(ENOENT) E(EISDIR) E(EMFILE) E(ESPIPE) E(EINTR) E(EROFS) E(EDQUOT)
    E(ELOOP) E(ENAMETOOLONG) E(ENOTDIR) E(EEXIST) E(EFBIG) E(ENOMEM) E(EAGAIN) E(EINVAL) E(EBADF)
#undef E
    return 0;
}

static void parse_plan(const char *p) {
    while (*p) {
        const char *e = strchr(p, ';');
        size_t n = e ? (size_t)(e - p) : strlen(p);
        if (n > 3 && !memcmp(p, "at=", 3)) {
            char *q;
            long seq = strtol(p + 3, &q, 10);
            if (*q == ':' && g_nrules < MAXRULES) {
                q++;
                struct rule *r = &g_rules[g_nrules];
                r->seq = seq; r->err = 0; r->short_n = -1; r->used = 0; r->lie_size = -1;
                size_t rem = n - (size_t)(q - p);
                if (rem > 6 && !memcmp(q, "short=", 6)) r->short_n = strtol(q + 6, NULL, 10);
                else if (rem == 4 && !memcmp(q, "zero", 4)) r->short_n = 0;
                else if (rem > 5 && !memcmp(q, "size=", 5)) r->lie_size = strtoll(q + 5, NULL, 10);  /* stat reports this size */
                else r->err = errno_by_name(q, rem);
                if (r->err || r->short_n >= 0 || r->lie_size >= 0) g_nrules++;
            }
        } else if (n > 5 && !memcmp(p, "full=", 5)) g_full = strtol(p + 5, NULL, 10);
        else if (n > 6 && !memcmp(p, "eintr=", 6)) g_eintr = strtol(p + 6, NULL, 10);
        else if (n > 6 && !memcmp(p, "chunk=", 6)) g_rchunk = g_wchunk = strtol(p + 6, NULL, 10);
        else if (n > 7 && !memcmp(p, "rchunk=", 7)) g_rchunk = strtol(p + 7, NULL, 10);
        else if (n > 7 && !memcmp(p, "wchunk=", 7)) g_wchunk = strtol(p + 7, NULL, 10);
        if (!e) break;
        p = e + 1;
    }
}

__attribute__((constructor)) static void trusim_init(void) {
    const char *root = getenv("TRUSIM_ROOT");
    const char *log = getenv("TRUSIM_LOG");
    const char *key = getenv("TRUSIM_KEY");
    const char *plan = getenv("TRUSIM_PLAN");
    if (key && *key) { g_have_key = 1; g_key_state = strtoull(key, NULL, 0); g_key_initial = g_key_state; }
    if (root && *root && strlen(root) < sizeof g_root - 2) {
        strcpy(g_root, root);
        g_root_len = strlen(g_root);
        while (g_root_len > 1 && g_root[g_root_len - 1] == '/') g_root[--g_root_len] = 0;
        g_active = 1;
    }
    if (log && *log) {
        int fd = (int)raw(SYS_openat, AT_FDCWD, (long)log, O_WRONLY | O_CREAT | O_APPEND | O_CLOEXEC, 0644);
        if (fd >= 0) {
            if (raw(SYS_dup3, fd, LOGFD, O_CLOEXEC, 0) == LOGFD) { raw(SYS_close, fd, 0, 0, 0); g_logfd = LOGFD; }
            else g_logfd = fd;
        }
    }
    if (plan) parse_plan(plan);
    /* `command > file`: the driver opened a sandbox file as fd 1; treat it as a tracked output */
    const char *so = getenv("TRUSIM_STDOUT");
    if (so && *so && g_active) {
        g_tracked[1] = 1;
        strncpy(g_paths[1], so, sizeof g_paths[1] - 1);
    }
    /* resource monitors: set here (not by the driver's pre_exec) so that the driver can use posix_spawn */
    const char *cpu = getenv("TRUSIM_CPU_S");
    const char *as = getenv("TRUSIM_AS_BYTES");
    if (cpu && *cpu) { struct rlimit r; r.rlim_cur = strtoul(cpu, NULL, 10); r.rlim_max = r.rlim_cur + 1; setrlimit(RLIMIT_CPU, &r); }
    if (as && *as) { struct rlimit r; r.rlim_cur = r.rlim_max = strtoull(as, NULL, 10); setrlimit(RLIMIT_AS, &r); }
    { struct rlimit r; r.rlim_cur = r.rlim_max = 0; setrlimit(RLIMIT_CORE, &r); }
    /* no output of a corpus-sized input comes near 64 MiB: a file growing beyond that is a runaway
     * (the sandbox is a tmpfs, i.e. RAM); SIGXFSZ then ends the run and is reported as such */
    { struct rlimit r; r.rlim_cur = r.rlim_max = 64ul << 20; setrlimit(RLIMIT_FSIZE, &r); }
}

static void logev(long seq, const char *op, int fd, const char *path, long req, long ret, int err, int inj) {
    if (g_logfd < 0) return;
    /* a run that loops over an I/O call forever must not fill the (RAM-backed) sandbox with its log */
    static long n_logged = 0;
    if (++n_logged > 100000) {
        if (n_logged == 100001) raw(SYS_write, g_logfd, (long)"- logcap -1 - 0 0 0 real\n", 25, 0);
        return;
    }
    char buf[320];
    int n;
    if (seq >= 0) n = snprintf(buf, sizeof buf, "%ld %s %d %s %ld %ld %d %s\n", seq, op, fd, path && *path ? path : "-", req, ret, err, inj ? "inj" : "real");
    else n = snprintf(buf, sizeof buf, "- %s %d %s %ld %ld %d %s\n", op, fd, path && *path ? path : "-", req, ret, err, inj ? "inj" : "real");
    if (n > (int)sizeof buf) n = sizeof buf;
    int saved = errno;
    raw(SYS_write, g_logfd, (long)buf, n, 0);
    errno = saved;
}

/* returns the sandbox-relative path if `path` is inside the sandbox, else NULL */
static const char *sandbox_rel(const char *path) {
    if (!g_active || !path) return NULL;
    if (path[0] != '/') {
        while (path[0] == '.' && path[1] == '/') { path += 2; while (*path == '/') path++; }
        return path;
    }
    if (!strncmp(path, g_root, g_root_len) && path[g_root_len] == '/') return path + g_root_len + 1;
    return NULL;
}

static struct rule *rule_at(long seq) {
    for (int i = 0; i < g_nrules; i++)
        if (!g_rules[i].used && g_rules[i].seq == seq) return &g_rules[i];
    return NULL;
}

/* EINTR noise: returns 1 if this call must fail with EINTR (not counted as an event) */
static int eintr_now(void) {
    if (g_eintr <= 0) return 0;
    if (g_prev_was_eintr) { g_prev_was_eintr = 0; return 0; }
    g_eintr_ctr++;
    if (g_eintr_ctr % g_eintr == 0) { g_prev_was_eintr = 1; return 1; }
    return 0;
}

/* ---------------------------------------------------------------- getrandom */

static uint64_t splitmix(void) {
    uint64_t z = (g_key_state += 0x9E3779B97F4A7C15ull);
    z = (z ^ (z >> 30)) * 0xBF58476D1CE4E5B9ull;
    z = (z ^ (z >> 27)) * 0x94D049BB133111EBull;
    return z ^ (z >> 31);
}

ssize_t getrandom(void *buf, size_t len, unsigned int flags) {
    if (!g_have_key) return raw(SYS_getrandom, (long)buf, (long)len, flags, 0);
    unsigned char *p = buf;
    size_t i = 0;
    while (i < len) {
        uint64_t v = splitmix();
        for (int k = 0; k < 8 && i < len; k++, i++) p[i] = (unsigned char)(v >> (8 * k));
    }
    logev(-1, "getrandom", -1, "-", (long)len, (long)len, 0, 1);
    return (ssize_t)len;
}

/* ------------------------------------------------------------------- getpid */
/* The process id is one more thing that differs between launches.  Under a key it is a function of
 * the key, so that a pid that leaks into an output (a temp-file name, a diagnostic) shows up as a
 * difference between keys and replays exactly. */
pid_t getpid(void) {
    if (!g_have_key) return (pid_t)raw(SYS_getpid, 0, 0, 0, 0);
    return (pid_t)(1000 + (g_key_initial * 2654435761ull >> 7) % 30000);
}

/* --------------------------------------------------------------------- open */

static int do_open(int dirfd, const char *path, int flags, mode_t mode) {
    const char *rel = (dirfd == AT_FDCWD || (path && path[0] == '/')) ? sandbox_rel(path) : NULL;
    if (!rel) return (int)raw(SYS_openat, dirfd, (long)path, flags, mode);
    if (eintr_now()) { logev(-1, "open", -1, rel, flags, -1, EINTR, 1); errno = EINTR; return -1; }
    long seq = g_seq++;
    struct rule *r = rule_at(seq);
    if (r && r->err) {
        r->used = 1;
        logev(seq, (flags & O_CREAT) ? "creat" : "open", -1, rel, flags, -1, r->err, 1);
        errno = r->err;
        return -1;
    }
    if ((flags & O_CREAT) && g_full >= 0 && g_written >= g_full && g_full == 0) {
        /* a completely full disk cannot allocate an inode */
        logev(seq, "creat", -1, rel, flags, -1, ENOSPC, 1);
        errno = ENOSPC;
        return -1;
    }
    int fd = (int)raw(SYS_openat, dirfd, (long)path, flags, mode);
    int e = errno;
    if (fd >= 0 && fd < MAXFD) {
        g_tracked[fd] = 1; g_eof[fd] = 0;
        strncpy(g_paths[fd], rel, sizeof g_paths[fd] - 1);
        g_paths[fd][sizeof g_paths[fd] - 1] = 0;
    }
    logev(seq, (flags & O_CREAT) ? "creat" : "open", fd, rel, flags, fd, fd < 0 ? e : 0, 0);
    errno = e;
    return fd;
}

int open64(const char *path, int flags, ...) {
    mode_t mode = 0;
    if (flags & (O_CREAT | O_TMPFILE)) { va_list ap; va_start(ap, flags); mode = va_arg(ap, mode_t); va_end(ap); }
    return do_open(AT_FDCWD, path, flags | O_LARGEFILE, mode);
}
int open(const char *path, int flags, ...) {
    mode_t mode = 0;
    if (flags & (O_CREAT | O_TMPFILE)) { va_list ap; va_start(ap, flags); mode = va_arg(ap, mode_t); va_end(ap); }
    return do_open(AT_FDCWD, path, flags, mode);
}
int openat64(int dirfd, const char *path, int flags, ...) {
    mode_t mode = 0;
    if (flags & (O_CREAT | O_TMPFILE)) { va_list ap; va_start(ap, flags); mode = va_arg(ap, mode_t); va_end(ap); }
    return do_open(dirfd, path, flags | O_LARGEFILE, mode);
}
int openat(int dirfd, const char *path, int flags, ...) {
    mode_t mode = 0;
    if (flags & (O_CREAT | O_TMPFILE)) { va_list ap; va_start(ap, flags); mode = va_arg(ap, mode_t); va_end(ap); }
    return do_open(dirfd, path, flags, mode);
}

/* --------------------------------------------------------------------- read */

static int is_tracked(int fd) { return g_active && fd >= 0 && fd < MAXFD && g_tracked[fd]; }

ssize_t read(int fd, void *buf, size_t count) {
    if (!is_tracked(fd)) return raw(SYS_read, fd, (long)buf, (long)count, 0);
    if (eintr_now()) { logev(-1, "read", fd, g_paths[fd], (long)count, -1, EINTR, 1); errno = EINTR; return -1; }
    long seq = g_seq++;
    struct rule *r = rule_at(seq);
    size_t n = count;
    int inj = 0;
    if (g_eof[fd] && count > 0) { logev(seq, "read", fd, g_paths[fd], (long)count, 0, 0, 1); return 0; }
    if (r) {
        r->used = 1;
        if (r->err) { logev(seq, "read", fd, g_paths[fd], (long)count, -1, r->err, 1); errno = r->err; return -1; }
        /* at=SEQ:zero on a read: the file ends here (it shrank after it was stat'ed); sticky for the fd */
        if (r->short_n == 0 && count > 0) { g_eof[fd] = 1; logev(seq, "read", fd, g_paths[fd], (long)count, 0, 0, 1); return 0; }
        if (r->short_n >= 0 && (size_t)r->short_n < n && r->short_n > 0) { n = (size_t)r->short_n; inj = 1; }
    }
    if (g_rchunk > 0 && (size_t)g_rchunk < n) { n = (size_t)g_rchunk; inj = 1; }
    ssize_t ret = raw(SYS_read, fd, (long)buf, (long)n, 0);
    int e = errno;
    logev(seq, "read", fd, g_paths[fd], (long)count, ret, ret < 0 ? e : 0, inj);
    errno = e;
    return ret;
}

ssize_t readv(int fd, const struct iovec *iov, int iovcnt) {
    if (!is_tracked(fd)) return raw(SYS_readv, fd, (long)iov, iovcnt, 0);
    for (int i = 0; i < iovcnt; i++)
        if (iov[i].iov_len) return read(fd, iov[i].iov_base, iov[i].iov_len);
    return 0;
}

/* -------------------------------------------------------------------- write */

ssize_t write(int fd, const void *buf, size_t count) {
    if (!is_tracked(fd)) return raw(SYS_write, fd, (long)buf, (long)count, 0);
    if (eintr_now()) { logev(-1, "write", fd, g_paths[fd], (long)count, -1, EINTR, 1); errno = EINTR; return -1; }
    long seq = g_seq++;
    struct rule *r = rule_at(seq);
    size_t n = count;
    int inj = 0;
    if (r) {
        r->used = 1;
        if (r->err) { logev(seq, "write", fd, g_paths[fd], (long)count, -1, r->err, 1); errno = r->err; return -1; }
        if (r->short_n == 0 && count > 0) { logev(seq, "write", fd, g_paths[fd], (long)count, 0, 0, 1); return 0; } /* the device accepts nothing */
        if (r->short_n >= 0 && (size_t)r->short_n < n && r->short_n > 0) { n = (size_t)r->short_n; inj = 1; }
    }
    if (g_wchunk > 0 && (size_t)g_wchunk < n) { n = (size_t)g_wchunk; inj = 1; }
    if (g_full >= 0 && n > 0) {
        long room = g_full - g_written;
        if (room <= 0) { logev(seq, "write", fd, g_paths[fd], (long)count, -1, ENOSPC, 1); errno = ENOSPC; return -1; }
        if ((long)n > room) { n = (size_t)room; inj = 1; }
    }
    ssize_t ret = raw(SYS_write, fd, (long)buf, (long)n, 0);
    int e = errno;
    if (ret > 0) g_written += ret;
    logev(seq, "write", fd, g_paths[fd], (long)count, ret, ret < 0 ? e : 0, inj);
    errno = e;
    return ret;
}

ssize_t writev(int fd, const struct iovec *iov, int iovcnt) {
    if (!is_tracked(fd)) return raw(SYS_writev, fd, (long)iov, iovcnt, 0);
    for (int i = 0; i < iovcnt; i++)
        if (iov[i].iov_len) return write(fd, iov[i].iov_base, iov[i].iov_len);
    return 0;
}

/* -------------------------------------------------------------------- lseek */

static off_t do_lseek(int fd, off_t off, int whence) {
    if (!is_tracked(fd)) return (off_t)raw(SYS_lseek, fd, (long)off, whence, 0);
    long seq = g_seq++;
    struct rule *r = rule_at(seq);
    if (r) {
        r->used = 1;
        if (r->err && r->err != EINTR) { logev(seq, "lseek", fd, g_paths[fd], (long)off, -1, r->err, 1); errno = r->err; return -1; }
    }
    off_t ret = (off_t)raw(SYS_lseek, fd, (long)off, whence, 0);
    int e = errno;
    logev(seq, "lseek", fd, g_paths[fd], (long)off, (long)ret, ret < 0 ? e : 0, 0);
    errno = e;
    return ret;
}
off_t lseek64(int fd, off_t off, int whence) { return do_lseek(fd, off, whence); }
off_t lseek(int fd, off_t off, int whence) { return do_lseek(fd, off, whence); }

/* -------------------------------------------------------------------- close */

int close(int fd) {
    if (!is_tracked(fd)) {
        if (fd == g_logfd && fd >= 0) { errno = EBADF; return -1; }
        return (int)raw(SYS_close, fd, 0, 0, 0);
    }
    long seq = g_seq++;
    struct rule *r = rule_at(seq);
    if (r) r->used = 1; /* close errors are ignored by std::fs::File; never injected */
    int ret = (int)raw(SYS_close, fd, 0, 0, 0);
    int e = errno;
    logev(seq, "close", fd, g_paths[fd], 0, ret, ret < 0 ? e : 0, 0);
    g_tracked[fd] = 0;
    errno = e;
    return ret;
}

/* -------------------------------------------------------------------- mkdir */

int mkdir(const char *path, mode_t mode) {
    const char *rel = sandbox_rel(path);
    if (!rel) return (int)raw(SYS_mkdirat, AT_FDCWD, (long)path, mode, 0);
    long seq = g_seq++;
    struct rule *r = rule_at(seq);
    if (r) {
        r->used = 1;
        if (r->err && r->err != EINTR) { logev(seq, "mkdir", -1, rel, mode, -1, r->err, 1); errno = r->err; return -1; }
    }
    if (g_full == 0) { logev(seq, "mkdir", -1, rel, mode, -1, ENOSPC, 1); errno = ENOSPC; return -1; }
    int ret = (int)raw(SYS_mkdirat, AT_FDCWD, (long)path, mode, 0);
    int e = errno;
    logev(seq, "mkdir", -1, rel, mode, ret, ret < 0 ? e : 0, 0);
    errno = e;
    return ret;
}

/* ------------------------------------------------ metadata calls: stat family, realpath, readlink, getcwd
 * Counted and logged like the I/O calls; the only fault is a one-shot errno ("at=SEQ:ERRNO").      */

static int meta_fault(const char *op, const char *rel, long *seq_out) {
    long seq = g_seq++;
    *seq_out = seq;
    struct rule *r = rule_at(seq);
    if (r && r->lie_size < 0) {   /* (a size rule is applied by the caller, after the real call) */
        r->used = 1;
        if (r->err && r->err != EINTR) { logev(seq, op, -1, rel, 0, -1, r->err, 1); errno = r->err; return 1; }
    }
    return 0;
}

int stat64(const char *path, struct stat64 *st) {
    const char *rel = sandbox_rel(path);
    if (!rel) return (int)raw(SYS_newfstatat, AT_FDCWD, (long)path, (long)st, 0);
    long seq;
    if (meta_fault("stat", rel, &seq)) return -1;
    int ret = (int)raw(SYS_newfstatat, AT_FDCWD, (long)path, (long)st, 0);
    int e = errno;
    logev(seq, "stat", -1, rel, 0, ret, ret < 0 ? e : 0, 0);
    errno = e;
    return ret;
}
int stat(const char *path, struct stat *st) { return stat64(path, (struct stat64 *)st); }

int lstat64(const char *path, struct stat64 *st) {
    const char *rel = sandbox_rel(path);
    if (!rel) return (int)raw(SYS_newfstatat, AT_FDCWD, (long)path, (long)st, AT_SYMLINK_NOFOLLOW);
    long seq;
    if (meta_fault("lstat", rel, &seq)) return -1;
    int ret = (int)raw(SYS_newfstatat, AT_FDCWD, (long)path, (long)st, AT_SYMLINK_NOFOLLOW);
    int e = errno;
    logev(seq, "lstat", -1, rel, 0, ret, ret < 0 ? e : 0, 0);
    errno = e;
    return ret;
}
int lstat(const char *path, struct stat *st) { return lstat64(path, (struct stat64 *)st); }

int fstat64(int fd, struct stat64 *st) {
    if (!is_tracked(fd)) return (int)raw(SYS_fstat, fd, (long)st, 0, 0);
    long seq;
    if (meta_fault("fstat", g_paths[fd], &seq)) return -1;
    int ret = (int)raw(SYS_fstat, fd, (long)st, 0, 0);
    { struct rule *r = rule_at(seq); if (r && r->lie_size >= 0 && ret == 0 && S_ISREG(st->st_mode)) { r->used = 1; st->st_size = (off_t)r->lie_size; } }
    int e = errno;
    logev(seq, "fstat", fd, g_paths[fd], 0, ret, ret < 0 ? e : 0, 0);
    errno = e;
    return ret;
}
int fstat(int fd, struct stat *st) { return fstat64(fd, (struct stat64 *)st); }

int statx(int dirfd, const char *path_arg, int flags, unsigned int mask, struct statx *stx) {
    /* std probes for statx with statx(0, NULL, 0, mask, NULL); glibc declares the argument nonnull,
     * so read it through a volatile copy or the compiler deletes the NULL checks below */
    const char *volatile path_v = path_arg;
    const char *path = path_v;
    const char *rel = NULL;
    if (path && path[0] == 0 && (flags & AT_EMPTY_PATH)) { if (is_tracked(dirfd)) rel = g_paths[dirfd]; }
    else if (dirfd == AT_FDCWD || (path && path[0] == '/')) rel = sandbox_rel(path);
    if (!rel) return (int)syscall(SYS_statx, dirfd, path, flags, mask, stx);
    long seq;
    const char *op = (flags & AT_SYMLINK_NOFOLLOW) ? "lstat" : ((flags & AT_EMPTY_PATH) ? "fstat" : "stat");
    if (meta_fault(op, rel, &seq)) return -1;
    int ret = (int)syscall(SYS_statx, dirfd, path, flags, mask, stx);
    int e = errno;
    int inj = 0;
    struct rule *r = rule_at(seq);
    if (r && r->lie_size >= 0 && ret == 0 && stx && S_ISREG(stx->stx_mode)) {
        /* the file system reports a size that is not the file's length: 0 (FIFO-like, procfs-like) or
         * something enormous (sparse file); the content that read() returns is unchanged */
        r->used = 1;
        stx->stx_size = (unsigned long long)r->lie_size;
        inj = 1;
    }
    logev(seq, op, -1, rel, inj ? (long)(r->lie_size >> 20) : 0, ret, ret < 0 ? e : 0, inj);
    errno = e;
    return ret;
}

ssize_t readlink(const char *path, char *buf, size_t len) {
    const char *rel = sandbox_rel(path);
    if (!rel) return raw(SYS_readlinkat, AT_FDCWD, (long)path, (long)buf, (long)len);
    long seq;
    if (meta_fault("readlink", rel, &seq)) return -1;
    ssize_t ret = raw(SYS_readlinkat, AT_FDCWD, (long)path, (long)buf, (long)len);
    int e = errno;
    /* (the length of an absolute link target depends on where the sandbox lives: not logged) */
    logev(seq, "readlink", -1, rel, (long)len, ret < 0 ? ret : 0, ret < 0 ? e : 0, 0);
    errno = e;
    return ret;
}

char *getcwd(char *buf, size_t size) {
    if (!g_active) { long r = raw(SYS_getcwd, (long)buf, (long)size, 0, 0); return r < 0 ? NULL : buf; }
    long seq;
    if (meta_fault("getcwd", "-", &seq)) return NULL;
    char *out = buf;
    if (!out) { if (size == 0) size = PATH_MAX; out = malloc(size); if (!out) { errno = ENOMEM; return NULL; } }
    long r = raw(SYS_getcwd, (long)out, (long)size, 0, 0);
    int e = errno;
    logev(seq, "getcwd", -1, "-", (long)size, r < 0 ? r : 0, r < 0 ? e : 0, 0);  /* (not the length: it depends on where the sandbox lives) */
    if (r < 0) { if (!buf) free(out); errno = e; return NULL; }
    return out;
}

/* realpath: resolved by libc itself with internal (non-interposable) calls, so it is faulted as a whole */
char *realpath(const char *path, char *resolved) {
    static char *(*real_realpath)(const char *, char *) = NULL;
    if (!real_realpath) real_realpath = (char *(*)(const char *, char *))dlsym(RTLD_NEXT, "realpath");
    const char *rel = sandbox_rel(path);
    if (!rel || !real_realpath) return real_realpath ? real_realpath(path, resolved) : NULL;
    long seq;
    if (meta_fault("realpath", rel, &seq)) return NULL;
    char *ret = real_realpath(path, resolved);
    int e = errno;
    logev(seq, "realpath", -1, rel, 0, ret ? 0 : -1, ret ? 0 : e, 0);
    errno = e;
    return ret;
}
