#!/bin/sh
# Proves determinism of the simulator: the same sample of cases, executed in several processes at
# several worker counts, must give the same digest every time (and each process checks internally
# that two executions of every case - on different workers - agree, event logs included).
cd "$(dirname "$0")/.." || exit 2
N="${SELFTEST_CASES:-600}"
ref=""
for jobs in 1 4 16 16 3 8; do
  out=$(SELFTEST_CASES=$N TRUSIM_JOBS=$jobs ./check selftest-determinism | grep '^selftest-determinism') || { echo "FAILED at jobs=$jobs: $out"; exit 2; }
  echo "jobs=$jobs $out"
  d=$(echo "$out" | sed 's/.*digest=\([0-9a-f]*\).*/\1/')
  if [ -z "$ref" ]; then ref=$d; elif [ "$ref" != "$d" ]; then echo "DIGEST MISMATCH across processes/worker counts"; exit 2; fi
done
echo "determinism selftest ok: digest $ref"
