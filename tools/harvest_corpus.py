#!/usr/bin/env python3
"""Provenance of /verif/corpus: run once against the pinned /repo; the output is committed.

  corpus/tree/<repo-relative path>     verbatim copies (map/, tests/integration/resources/, bits-2-bits/)
  corpus/items.json                    workload items:
      kind=binary : a bundled game file (tool, game, path, mapfile)
      kind=source : a source snippet harvested from a `source_test!` invocation, assembled exactly
                    like tests/integration_impl/source_test.rs does (script_head + items + make_main(body)),
                    with its mapfiles, compile args and decompile args.

Whether a snippet compiles is NOT recorded: the simulator's golden run decides.
"""
import json, os, re, shutil, sys

REPO = sys.argv[1] if len(sys.argv) > 1 else "/repo"
OUT = sys.argv[2] if len(sys.argv) > 2 else "/verif/corpus"


# ---------------------------------------------------------------- tiny Rust tokenizer

def skip_string(s, i):
    """s[i] starts a string literal ("..." or r#"..."# or b"..."); returns (end, value|None)."""
    j = i
    if s[j] == 'b':
        j += 1
    if s[j] == 'r':
        j += 1
        hashes = 0
        while s[j] == '#':
            hashes += 1
            j += 1
        assert s[j] == '"'
        j += 1
        term = '"' + '#' * hashes
        k = s.index(term, j)
        return k + len(term), s[j:k]
    assert s[j] == '"', s[i:i + 20]
    j += 1
    out = []
    while s[j] != '"':
        if s[j] == '\\':
            c = s[j + 1]
            if c == 'n': out.append('\n'); j += 2
            elif c == 't': out.append('\t'); j += 2
            elif c == 'r': out.append('\r'); j += 2
            elif c == '0': out.append('\0'); j += 2
            elif c == '\\': out.append('\\'); j += 2
            elif c == '"': out.append('"'); j += 2
            elif c == "'": out.append("'"); j += 2
            elif c == 'x': out.append(chr(int(s[j + 2:j + 4], 16))); j += 4
            elif c == 'u':
                k = s.index('}', j)
                out.append(chr(int(s[j + 3:k], 16))); j = k + 1
            elif c == '\n':
                j += 2
                while s[j] in ' \t\n\r': j += 1
            else:
                raise ValueError("escape " + c)
        else:
            out.append(s[j]); j += 1
    return j + 1, ''.join(out)


def is_string_start(s, i):
    if s[i] == '"': return True
    m = re.match(r'b?r#*"', s[i:i + 12])
    if m and (i == 0 or not (s[i - 1].isalnum() or s[i - 1] == '_')): return True
    if s[i] == 'b' and s[i + 1:i + 2] == '"' and (i == 0 or not (s[i - 1].isalnum() or s[i - 1] == '_')): return True
    return False


def skip_trivia_or_atom(s, i):
    """advance over one comment / string / char literal if one starts at i, else return i."""
    if s.startswith('//', i):
        k = s.find('\n', i)
        return len(s) if k < 0 else k + 1
    if s.startswith('/*', i):
        depth, j = 1, i + 2
        while depth:
            if s.startswith('/*', j): depth += 1; j += 2
            elif s.startswith('*/', j): depth -= 1; j += 2
            else: j += 1
        return j
    if is_string_start(s, i):
        return skip_string(s, i)[0]
    if s[i] == "'":
        m = re.match(r"'(\\.[^']*|[^'\\])'", s[i:i + 12])
        if m: return i + m.end()
        return i + 1  # lifetime
    return i


def find_matching(s, i):
    """s[i] is an opening bracket; return index just past its match."""
    pairs = {'(': ')', '[': ']', '{': '}'}
    stack = [pairs[s[i]]]
    j = i + 1
    while stack:
        k = skip_trivia_or_atom(s, j)
        if k != j:
            j = k; continue
        c = s[j]
        if c in pairs: stack.append(pairs[c])
        elif c in ')]}':
            assert c == stack[-1], (c, stack, s[j - 40:j + 40])
            stack.pop()
        j += 1
    return j


def split_top_level(s, sep=','):
    parts, depth, j, start = [], 0, 0, 0
    while j < len(s):
        k = skip_trivia_or_atom(s, j)
        if k != j:
            j = k; continue
        c = s[j]
        if c in '([{':
            j = find_matching(s, j); continue
        if c == '|' and depth == 0:
            pass
        if c == sep:
            parts.append(s[start:j]); start = j + 1
        j += 1
    parts.append(s[start:])
    return parts


def strip_comments(s):
    out, j = [], 0
    while j < len(s):
        if s.startswith('//', j) or s.startswith('/*', j):
            j = skip_trivia_or_atom(s, j); out.append(' '); continue
        if is_string_start(s, j):
            k = skip_string(s, j)[0]; out.append(s[j:k]); j = k; continue
        out.append(s[j]); j += 1
    return ''.join(out)


# ---------------------------------------------------------------- formats.rs

def parse_formats(path):
    src = open(path, encoding='utf-8').read()
    fmts = {}
    for m in re.finditer(r'pub const (\w+): Format = Format \{', src):
        name = m.group(1)
        end = find_matching(src, m.end() - 1)
        body = src[m.end():end - 1]
        f = {}
        base = re.search(r'\.\.(\w+)\s*$', strip_comments(body).strip().rstrip(','))
        if base: f.update(fmts[base.group(1)])
        for part in split_top_level(body):
            p = strip_comments(part).strip()
            mm = re.match(r'(\w+)\s*:\s*(.*)$', p, re.S)
            if not mm: continue
            k, v = mm.group(1), mm.group(2).strip()
            if k == 'cmd': f['cmd'] = skip_string(v, 0)[1]
            elif k == 'game': f['game'] = re.match(r'Game::(\w+)', v).group(1).lower()
            elif k == 'script_head':
                if is_string_start(v, 0): f['script_head'] = skip_string(v, 0)[1]
                else: f['script_head'] = fmts[re.match(r'(\w+)\.script_head', v).group(1)]['script_head']
            elif k == 'make_main':
                mm2 = re.match(r'\|body\|\s*format!\(', v)
                if mm2:
                    t = skip_string(v, mm2.end())[1]
                    f['main_tpl'] = t.replace('{{', '\x01').replace('}}', '\x02')
                else: f['main_tpl'] = fmts[re.match(r'(\w+)\.make_main', v).group(1)]['main_tpl']
        fmts[name] = f
    return fmts


def make_main(tpl, body):
    return tpl.replace('{body}', body).replace('\x01', '{').replace('\x02', '}')


# ---------------------------------------------------------------- source_test! harvesting

def strip_expectations(text):
    """What tests/integration_impl/parse_errors.rs::parse_expected_diagnostics does to a source or
    mapfile before handing it to the CLI: cut each line at `//~` and trim trailing whitespace."""
    out = []
    for line in text.split('\n'):
        i = line.find('//~')
        if i >= 0: line = line[:i]
        out.append(line.rstrip() if i >= 0 else line)
    return '\n'.join(out)


def eval_string(expr, consts):
    e = strip_comments(expr).strip()
    if not e: return None
    if is_string_start(e, 0):
        end, val = skip_string(e, 0)
        rest = e[end:].strip()
        if rest in ('', '.to_string()', '.into()', '.to_owned()'): return val
        return None
    if re.fullmatch(r'[A-Z_][A-Z0-9_]*', e): return consts.get(e)
    m = re.fullmatch(r'&?\*?([A-Z_][A-Z0-9_]*)(\.to_string\(\)|\.clone\(\)|\[\.\.\])?', e)
    if m: return consts.get(m.group(1))
    return None


def eval_str_array(expr, consts):
    e = strip_comments(expr).strip()
    m = re.match(r'&?\[', e)
    if not m: return None
    end = find_matching(e, m.end() - 1)
    inner = e[m.end():end - 1]
    out = []
    for p in split_top_level(inner):
        if not strip_comments(p).strip(): continue
        v = eval_string(p, consts)
        if v is None: return None
        out.append(v)
    return out


def harvest_file(path, fmts, stats):
    src = open(path, encoding='utf-8').read()
    stem = os.path.splitext(os.path.basename(path))[0]
    consts = {}
    for m in re.finditer(r"const\s+([A-Z_][A-Z0-9_]*)\s*:\s*&(?:'static\s+)?str\s*=\s*", src):
        j = m.end()
        if is_string_start(src, j): consts[m.group(1)] = skip_string(src, j)[1]
    items = []
    # module path tracking (for unique names)
    mods = []  # (name, end_index)
    for m in re.finditer(r'\bmod\s+(\w+)\s*\{', src):
        mods.append((m.group(1), m.start(), find_matching(src, m.end() - 1)))
    # skip macro_rules bodies
    macro_spans = []
    for m in re.finditer(r'macro_rules!\s*\w+\s*\{', src):
        macro_spans.append((m.start(), find_matching(src, m.end() - 1)))
    for m in re.finditer(r'\bsource_test!\s*\(', src):
        if any(a <= m.start() < b for a, b in macro_spans):
            stats['in_macro'] += 1; continue
        # inside a comment?
        line_start = src.rfind('\n', 0, m.start()) + 1
        if '//' in src[line_start:m.start()]:
            stats['commented'] += 1; continue
        end = find_matching(src, m.end() - 1)
        body = src[m.end():end - 1]
        parts = split_top_level(body)
        head0 = strip_comments(parts[0]).strip()
        head0 = re.sub(r'#\[[^\]]*\]', '', head0).strip()
        name = strip_comments(parts[1]).strip()
        stats['invocations'] += 1
        if head0 not in fmts:
            stats['unknown_format'] += 1; continue
        modpath = [mn for mn, a, b in mods if a <= m.start() < b]
        item = {'kind': 'source', 'id': '/'.join([stem] + modpath + [name]), 'format': head0,
                'cmd': fmts[head0]['cmd'], 'game': fmts[head0]['game'],
                'mapfiles': [], 'compile_mapfiles': [], 'decompile_mapfiles': [],
                'compile_args': [], 'decompile_args': []}
        main_body = items_txt = full = None
        ok = True
        for p in parts[2:]:
            ps = strip_comments(p).strip()
            if not ps: continue
            mm = re.match(r'(\w+)\s*:', ps)
            if not mm: continue  # continuation of a closure `|a, b| {..}` split at its comma
            k = mm.group(1)
            v = p[p.index(':', p.index(k)) + 1:]
            if k in ('main_body', 'items', 'full_source', 'mapfile', 'compile_mapfile', 'decompile_mapfile'):
                val = eval_string(v, consts)
                if val is None:
                    ok = False; stats['unrecoverable:' + k] += 1; break
                if k == 'main_body': main_body = val
                elif k == 'items': items_txt = val
                elif k == 'full_source': full = val
                elif k == 'mapfile': item['mapfiles'].append(val)
                elif k == 'compile_mapfile': item['compile_mapfiles'].append(val)
                else: item['decompile_mapfiles'].append(val)
            elif k in ('compile_args', 'decompile_args'):
                val = eval_str_array(v, consts)
                if val is None:
                    ok = False; stats['unrecoverable:' + k] += 1; break
                item[k] = val
            else:
                pass  # closures and expectations: not needed
        if not ok: continue
        f = fmts[head0]
        if full is not None: text = full
        elif main_body is not None or items_txt is not None:
            text = "%s\n%s\n%s" % (f['script_head'], items_txt or '', make_main(f['main_tpl'], main_body or ''))
        else:
            stats['no_source'] += 1; continue
        item['source'] = strip_expectations(text)
        for k in ('mapfiles', 'compile_mapfiles', 'decompile_mapfiles'):
            item[k] = [strip_expectations(t) for t in item[k]]
        items.append(item)
        stats['harvested'] += 1
    return items


def harvest_b2b(path, fmts):
    src = open(path, encoding='utf-8').read()
    out = []
    for m in re.finditer(r'^b2b_test!\s*\(', src, re.M):
        end = find_matching(src, m.end() - 1)
        parts = split_top_level(src[m.end():end - 1])
        fmt = strip_comments(parts[0]).strip()
        mapf = eval_string(parts[1], {})
        name = strip_comments(parts[2]).strip()
        fname = eval_string(parts[3], {})
        out.append({'kind': 'binary', 'id': 'b2b/' + name, 'cmd': fmts[fmt]['cmd'], 'game': fmts[fmt]['game'],
                    'path': 'tests/integration/bits-2-bits/' + fname, 'mapfile': mapf})
    return out


def main():
    from collections import Counter
    stats = Counter()
    fmts = parse_formats(os.path.join(REPO, 'tests/integration_impl/formats.rs'))
    items = []
    tdir = os.path.join(REPO, 'tests/integration')
    for fn in sorted(os.listdir(tdir)):
        if fn.endswith('.rs'):
            items += harvest_file(os.path.join(tdir, fn), fmts, stats)
    items += harvest_b2b(os.path.join(tdir, 'bits_2_bits.rs'), fmts)
    # resource ANMs (used as image sources / extract inputs)
    rdir = os.path.join(tdir, 'resources')
    for fn in sorted(os.listdir(rdir)):
        if fn.endswith('.anm'):
            items.append({'kind': 'binary', 'id': 'res/' + fn, 'cmd': 'truanm', 'game': 'th12',
                          'path': 'tests/integration/resources/' + fn, 'mapfile': 'map/any.anmm'})
    ids = Counter(i['id'] for i in items)
    assert all(v == 1 for v in ids.values()), [k for k, v in ids.items() if v > 1]

    tree = os.path.join(OUT, 'tree')
    if os.path.isdir(tree): shutil.rmtree(tree)
    for rel in ('map', 'tests/integration/resources', 'tests/integration/bits-2-bits'):
        shutil.copytree(os.path.join(REPO, rel), os.path.join(tree, rel))
    for junk in ('tests/integration/resources/Makefile',):
        p = os.path.join(tree, junk)
        if os.path.exists(p): os.remove(p)
    json.dump({'formats': fmts, 'items': items, 'stats': dict(stats)}, open(os.path.join(OUT, 'items.json'), 'w'),
              indent=1, ensure_ascii=False)
    print(json.dumps(dict(stats), indent=1))
    print('items', len(items), 'sources', sum(i['kind'] == 'source' for i in items))


if __name__ == '__main__':
    main()
