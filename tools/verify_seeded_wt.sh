#!/bin/sh
# tools/verify_seeded_wt.sh <seeded-id>...
# For each id: the demonstration must PASS (exit 0) with the binary built from /repo's HEAD and FAIL
# (non-zero) with the binary built from a scratch worktree that has seeded/<id>/patch.diff applied.
# Never touches /repo's working tree.  Results are appended to seeded/<id>/verified.txt.
cd "$(dirname "$0")/.." || exit 2
WT=/tmp/trusim-seedwt; CA=/tmp/trusim-seedcache
unset RUST_BACKTRACE
./check build-only >/dev/null || exit 2
BASE="$PWD/.cache/truth-target/release/truth-core"
[ -d $WT ] || git -C /repo worktree add --detach $WT HEAD >/dev/null 2>&1 || exit 2
for id in "$@"; do
  d="$PWD/seeded/$id"; [ -f "$d/demo.sh" ] || { echo "$id: no demo.sh"; continue; }
  ( cd "$d" && bash ./demo.sh "$BASE" >/tmp/demo.$$.out 2>&1 ); base=$?
  git -C $WT checkout -q --detach "$(git -C /repo rev-parse HEAD)" && git -C $WT checkout -q -- .
  if ! git -C $WT apply "$d/patch.diff"; then echo "$id: patch does not apply"; continue; fi
  TRUSIM_REPO=$WT TRUSIM_CACHE=$CA ./check build-only >/dev/null; b=$?
  ( cd "$d" && bash ./demo.sh "$CA/truth-target/release/truth-core" >/tmp/demo.$$.out 2>&1 ); seeded=$?
  git -C $WT checkout -q -- .
  echo "$id: unchanged -> demo exit $base; with patch (build exit $b) -> demo exit $seeded"
  echo "$(date -u +%FT%TZ) unchanged tree ($(git -C /repo rev-parse --short HEAD)): demo exit $base; with patch.diff applied in a scratch worktree: build exit $b, demo exit $seeded" >> "$d/verified.txt"
done
rm -f /tmp/demo.$$.out
