#!/usr/bin/env python3
"""Run the repository's test suite (guard off = unmodified build) and compare with /root/.vp/BASELINE.json:
every test in stable_pass must still pass.  Usage: baseline_compare.py [repo [file-to-write-the-passing-test-names-to]]"""
import json, re, subprocess, sys, os
repo = sys.argv[1] if len(sys.argv) > 1 else '/repo'
base = json.load(open('/root/.vp/BASELINE.json'))
env = dict(os.environ, CARGO_NET_OFFLINE='true')
env.pop('RUST_BACKTRACE', None)
p = subprocess.run(['cargo', 'test', '--workspace', '--no-fail-fast', '--offline'], cwd=repo, env=env, stdout=subprocess.PIPE, stderr=subprocess.STDOUT, text=True)
ok, bad = set(), set()
binary = None
for line in p.stdout.splitlines():
    m = re.match(r'\s*Running (?:unittests )?(\S+)', line)
    if m:
        src = m.group(1)
        binary = {'src/lib.rs': '', 'tests/integration.rs': 'integration::', 'tests/cli-help-version.rs': 'cli-help-version::', 'tests/expr_compile.rs': 'expr_compile::'}.get(src, None)
        if binary is None and src.startswith('src/bin'): binary = 'bin::'
    m = re.match(r'test (\S+)(?: - should panic)? \.\.\. (ok|FAILED|ignored)', line)
    if m and binary is not None:
        (ok if m.group(2) == 'ok' else bad).add('truth::' + binary + m.group(1))
if len(sys.argv) > 2:
    open(sys.argv[2], 'w').write('\n'.join(sorted(ok)) + '\n')
    open(sys.argv[2] + '.failed', 'w').write('\n'.join(sorted(bad)) + '\n')
missing = [t for t in base['stable_pass'] if t not in ok]
print('passed', len(ok), 'failed', len(bad), 'baseline', len(base['stable_pass']), 'baseline tests not passing now:', len(missing))
for t in missing[:40]: print('  NOT PASSING:', t)
sys.exit(1 if missing else 0)
