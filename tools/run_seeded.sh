#!/bin/sh
# tools/run_seeded.sh <seeded-id> [check ids...] [-- extra args for ./check, e.g. --tier thorough]
# Applies /verif/seeded/<id>/patch.diff to /repo, runs the given checks (default: the property named
# in meta.json), prints which raised VIOLATION, and ALWAYS restores /repo afterwards.
set -u
cd "$(dirname "$0")/.." || exit 2
id="$1"; shift
dir="seeded/$id"
[ -f "$dir/patch.diff" ] || { echo "no $dir/patch.diff"; exit 2; }
checks=""; extra=""
while [ $# -gt 0 ]; do
  if [ "$1" = "--" ]; then shift; extra="$*"; break; fi
  checks="$checks $1"; shift
done
[ -n "$checks" ] || checks=$(python3 -c "import json;print(json.load(open('$dir/meta.json'))['property'])")
if [ -n "$(git -C /repo status --porcelain --untracked-files=no)" ]; then echo "/repo has uncommitted changes; refusing"; exit 2; fi
git -C /repo apply "$PWD/$dir/patch.diff" || { echo "patch does not apply"; exit 2; }
trap 'git -C /repo checkout -- . ; echo "[/repo restored]"' EXIT INT TERM
for c in $checks; do
  out=$(./check "$c" $extra 2>/dev/null)
  code=$?
  echo "=== $id vs $c: exit $code"
  echo "$out" | grep -a -E "^VIOLATION|^  class:|^  scenario:|^$c:" | head -40
done
