#!/bin/sh
# tools/eval_seeded.sh <seeded-id> [check ids...] [-- extra ./check args]
# Like run_seeded.sh but never touches /repo: the patch is applied in a scratch worktree
# (/tmp/trusim-seedwt, created on demand from /repo's HEAD) built into its own target directory
# (/tmp/trusim-seedcache); evidence and replay files go to /tmp/trusim-seedout/<id>/.
# Remove all three directories when done (tools/eval_seeded.sh --clean).
set -u
cd "$(dirname "$0")/.." || exit 2
WT=/tmp/trusim-seedwt; CA=/tmp/trusim-seedcache; OUT=/tmp/trusim-seedout
if [ "$1" = "--clean" ]; then git -C /repo worktree remove --force $WT 2>/dev/null; rm -rf $WT $CA $OUT; git -C /repo worktree prune; exit 0; fi
id="$1"; shift
dir="$PWD/seeded/$id"
[ -f "$dir/patch.diff" ] || { echo "no $dir/patch.diff"; exit 2; }
checks=""; extra=""
while [ $# -gt 0 ]; do
  if [ "$1" = "--" ]; then shift; extra="$*"; break; fi
  checks="$checks $1"; shift
done
[ -n "$checks" ] || checks=$(python3 -c "import json;print(json.load(open('$dir/meta.json'))['property'])")
[ -d $WT ] || git -C /repo worktree add --detach $WT HEAD >/dev/null 2>&1 || { echo "cannot create worktree"; exit 2; }
git -C $WT checkout -q --detach "$(git -C /repo rev-parse HEAD)" && git -C $WT checkout -q -- . || exit 2
git -C $WT apply "$dir/patch.diff" || { echo "patch does not apply"; exit 2; }
mkdir -p $OUT/$id
for c in $checks; do
  out=$(TRUSIM_REPO=$WT TRUSIM_CACHE=$CA TRUSIM_OUT=$OUT/$id ./check "$c" $extra 2>/dev/null)
  code=$?
  echo "=== $id vs $c: exit $code"
  echo "$out" | grep -a -E "^VIOLATION|^  class:|^  scenario:|^$c:" | head -40
done
git -C $WT checkout -q -- .
