#!/usr/bin/env python3
"""Seeded generator of source programs ("gen/..." corpus items).

The workload of the claimed checks is a set of pipelines over corpus items; this adds items whose
instruction streams nobody wrote by hand: raw instructions with several signatures, absolute /
relative / negative time labels, difficulty labels and difficulty-switch arguments (old ECL), labels
with forward and backward gotos (plain, conditional, with explicit times), nested loop / while /
do-while / times / if-else-if blocks, register arithmetic and locals, several scripts per file.

It is NOT a claim about the program space (that part of the properties is pure and is listed as not
covered); it only makes the pipelines (round trip, read-back, debug-info cross-check, hash-key
schedules) run over more shapes than the harvested snippets have.  The generator is deterministic
(one PRNG, fixed seed); its output is committed as part of corpus/extra.json by make_extra.py.
Whether an item compiles is decided by the fault-free run, never assumed.
"""
import random

SIGS = {700: '', 701: 'S', 702: 'SS', 703: 'f', 704: 'Sf', 705: 'ff', 706: 'SSf', 707: 'SSS', 708: 'fS'}
# TH06-09 STD instructions always carry exactly 12 bytes of arguments
SIGS_MSG06 = {700: '', 701: 'S', 702: 'ss', 703: 'f', 707: 'SSS', 710: 'ssz(bs=4)', 711: 'z(bs=4)'}
SIGS_MSG12 = {700: '', 701: 'S', 702: 'ss', 703: 'f', 707: 'SSS', 710: 'm(bs=4;mask=0x77,7,16)', 711: 'Sm(bs=4;mask=0x77,7,16;furibug)', 712: 'm(bs=4;mask=0x77,7,16;furibug)'}
SIGS_ANM = dict(list({700: '', 701: 'S', 702: 'SS', 703: 'f', 704: 'Sf', 705: 'ff', 706: 'SSf', 707: 'SSS', 708: 'fS'}.items()) + [(710, 'Sz(bs=4)')])
STRINGS = ['', 'a', 'abc', 'abcd', 'hello world', '|furi', '|', 'x|y', 'line\\nbreak', 'quote\\"q', 'テスト', '東方', 'seven77', 'a' * 31]
def rebase(sigs, delta):
    return {op + delta: sg for op, sg in sigs.items()}


SIGS12 = {700: 'SSS', 701: 'fff', 702: 'SSf', 703: 'Sff', 704: 'ffS', 705: 'fSf'}
INTS = [0, 1, -1, 2, 3, 7, 10, 100, 255, 256, 1000, 65535, 65536, -32768, 0x7fffffff, -0x80000000, 0x10, -100]
FLOATS = ['0.0', '1.0', '-1.0', '0.5', '2.5', '-0.25', '3.1415927', '100.0', '10000000000.0', '0.001', '480.0', '-0.00001']


def sig_kinds(sig):
    """'Sm(bs=4;...)' -> ['S', 'm']"""
    out = []
    depth = 0
    for ch in sig:
        if ch == '(':
            depth += 1
        elif ch == ')':
            depth -= 1
        elif depth == 0:
            out.append(ch)
    return out


class Profile:
    def __init__(self, fmt, mapmagic, regs_i, regs_f, diff, jumps, blocks, exprs, multi, sig_section='!ins_signatures', timeline=False, sigs=None, countjmp='--%s', interrupts=False):
        self.fmt = fmt
        self.mapmagic = mapmagic
        self.regs_i = regs_i
        self.regs_f = regs_f
        self.diff = diff          # difficulty labels / switches
        self.jumps = jumps        # labels and gotos
        self.blocks = blocks      # loop/while/if blocks (needs conditional jumps)
        self.exprs = exprs        # assignments
        self.multi = multi        # kind of additional items: 'script', 'sub', None
        self.sig_section = sig_section
        self.timeline = timeline
        self.sigs = sigs or SIGS
        self.countjmp = countjmp
        self.interrupts = interrupts


PROFILES = {
    'anm12': Profile('ANM_12', '!anmmap', ['I0', 'I1', 'I2', 'I3'], ['F0', 'F1', 'F2', 'F3'], False, True, True, True, 'script', sigs=SIGS_ANM, interrupts=True),
    'anm06': Profile('ANM_06', '!anmmap', [], [], False, True, False, False, 'script', sigs=rebase(SIGS, -600)),
    'anm16': Profile('ANM_16', '!anmmap', ['I0', 'I1', 'I2', 'I3'], ['F0', 'F1', 'F2', 'F3'], False, True, True, True, 'script', sigs=SIGS_ANM, interrupts=True),
    'ecl06': Profile('ECL_06', '!eclmap', ['I0', 'I1', 'I2', 'I3'], ['F0', 'F1', 'F2', 'F3'], True, True, True, True, 'sub', countjmp='--%s > 0'),
    'ecl07': Profile('ECL_07', '!eclmap', ['I0', 'I1', 'I2', 'I3'], ['F0', 'F1', 'F2', 'F3'], True, True, True, True, 'sub', countjmp='--%s > 0'),
    'ecl08': Profile('ECL_08', '!eclmap', ['I0', 'I1', 'I2', 'I3'], ['F0', 'F1', 'F2', 'F3'], True, True, True, True, 'sub', countjmp='--%s > 0'),
    'std08': Profile('STD_08', '!stdmap', [], [], False, True, False, False, None, sigs=SIGS12, interrupts=True),
    'std12': Profile('STD_12', '!stdmap', [], [], False, True, False, False, None, interrupts=True),
    'msg06': Profile('MSG_06', '!msgmap', [], [], False, False, False, False, 'msg', sigs=rebase(SIGS_MSG06, -600)),
    'msg12': Profile('MSG_12', '!msgmap', [], [], False, False, False, False, 'msg', sigs=rebase(SIGS_MSG12, -600)),
    'msg09': Profile('MSG_09', '!msgmap', [], [], False, False, False, False, 'msg', sigs=rebase(SIGS_MSG12, -600)),
}

DIFFS = ['E', 'N', 'H', 'L', 'EN', 'HL', 'ENH', 'NHL', 'EL', 'NH', 'ENHL', '*']


class Gen:
    def __init__(self, prof, rng):
        import copy
        self.p = copy.copy(prof)
        self.r = rng
        if prof.regs_i:
            self.p.regs_i = rng.sample(prof.regs_i, 2)
            self.p.regs_f = rng.sample(prof.regs_f, 2)
        self.nlabel = 0
        self.nlocal = 0

    # ---- atoms
    def int_lit(self):
        r = self.r
        v = r.choice(INTS) if r.random() < 0.6 else r.randint(-5000, 5000)
        if r.random() < 0.15:
            return hex(v) if v >= 0 else '-' + hex(-v)
        return str(v)

    def float_lit(self):
        r = self.r
        if r.random() < 0.6:
            return r.choice(FLOATS)
        return repr(round(r.uniform(-1000, 1000), r.choice([0, 1, 3, 6])))

    def int_atom(self, regs_ok=True):
        if regs_ok and self.p.regs_i and self.r.random() < 0.3:
            return self.r.choice(self.p.regs_i)
        return self.int_lit()

    def float_atom(self, regs_ok=True):
        if regs_ok and self.p.regs_f and self.r.random() < 0.3:
            return self.r.choice(self.p.regs_f)
        return self.float_lit()

    def arg(self, ch, switch_ok):
        r = self.r
        if ch in 'zm':
            return '"%s"' % r.choice(STRINGS)
        if ch == 's':
            return str(r.choice([0, 1, -1, 2, 100, 32767, -32768, 255]))
        if switch_ok and self.p.diff and r.random() < 0.15:
            mk = (lambda: self.int_lit()) if ch == 'S' else (lambda: self.float_lit())
            shape = r.choice(['full', 'holes', 'two'])
            if shape == 'full':
                return '(%s : %s : %s : %s)' % (mk(), mk(), mk(), mk())
            if shape == 'holes':
                return '(%s : : %s : )' % (mk(), mk())
            return '(%s : %s : : )' % (mk(), mk())
        return self.int_atom() if ch == 'S' else self.float_atom()

    def ins(self, switch_ok=True):
        op = self.r.choice(list(self.p.sigs))
        return 'ins_%d(%s);' % (op, ', '.join(self.arg(c, switch_ok) for c in sig_kinds(self.p.sigs[op])))

    def cond(self):
        r = self.r
        p = self.p
        k = r.random()
        if k < 0.15:
            return p.countjmp % r.choice(p.regs_i)
        if k < 0.55:
            return '%s %s %s' % (r.choice(p.regs_i), r.choice(['==', '!=', '<', '<=', '>', '>=']), self.int_atom())
        if k < 0.8:
            return '%s %s %s' % (r.choice(p.regs_f), r.choice(['==', '!=', '<', '<=', '>', '>=']), self.float_atom())
        a = '%s %s %s' % (r.choice(p.regs_i), r.choice(['==', '<', '>']), self.int_lit())
        b = '%s %s %s' % (r.choice(p.regs_i), r.choice(['!=', '<=', '>=']), self.int_lit())
        return '%s %s %s' % (a, r.choice(['&&', '||']), b)

    def int_expr(self, depth=0):
        r = self.r
        if depth >= 2 or r.random() < 0.4:
            return self.int_atom()
        op = r.choice(['+', '-', '*', '/', '%'])
        rhs = self.int_expr(depth + 1)
        if op in '/%' and rhs.lstrip('-').lstrip('0x') in ('', '0'):
            rhs = '3'
        return '(%s %s %s)' % (self.int_expr(depth + 1), op, rhs)

    def float_expr(self, depth=0):
        r = self.r
        if depth >= 2 or r.random() < 0.4:
            return self.float_atom()
        op = r.choice(['+', '-', '*', '/'])
        return '(%s %s %s)' % (self.float_expr(depth + 1), op, self.float_expr(depth + 1))

    def assign(self):
        r = self.r
        if r.random() < 0.5:
            return '%s %s %s;' % (r.choice(self.p.regs_i), r.choice(['=', '=', '+=', '-=', '*=']), self.int_expr())
        return '%s %s %s;' % (r.choice(self.p.regs_f), r.choice(['=', '=', '+=', '-=', '*=']), self.float_expr())

    def time_label(self):
        r = self.r
        k = r.random()
        if k < 0.7:
            return '+%d:' % r.choice([1, 2, 5, 10, 30, 60, 100, 1000, 32767 if r.random() < 0.1 else 7])
        if k < 0.85:
            return '%d:' % r.choice([0, 5, 10, 100, 500, 3000])
        return '%d:' % r.choice([-1, -10, -100])

    # ---- statements
    def block_body(self, depth, n):
        out = []
        for _ in range(n):
            out.extend(self.stmt(depth))
        return out

    def stmt(self, depth):
        """returns a list of lines"""
        r = self.r
        p = self.p
        k = r.random()
        ind = '    ' * (depth + 1)
        if p.interrupts and r.random() < 0.07:
            return [ind + 'interrupt[%d]:' % r.choice([1, 2, 3, 7])]
        if k < 0.35:
            return [ind + self.ins()]
        if k < 0.55:
            return [ind + self.time_label()]
        if k < 0.65 and p.diff and depth == 0:
            return self.diff_stmt(ind, depth)
        if k < 0.80 and p.exprs:
            return [ind + self.assign()]
        if k < 0.95 and p.blocks and depth < 3:
            kind = r.choice(['loop', 'while', 'dowhile', 'times', 'if', 'ifelse', 'ifelseif', 'timesclobber', 'local'])
            body = self.block_body(depth + 1, r.randint(0, 3))
            if kind == 'loop':
                if r.random() < 0.5:
                    body.append('    ' * (depth + 2) + 'break;')
                return [ind + 'loop {'] + body + [ind + '}']
            if kind == 'while':
                return [ind + 'while (%s) {' % self.cond()] + body + [ind + '}']
            if kind == 'dowhile':
                return [ind + 'do {'] + body + [ind + '} while (%s);' % self.cond()]
            if kind == 'times':
                return [ind + 'times(%s) {' % self.int_atom()] + body + [ind + '}']
            if kind == 'timesclobber':
                return [ind + 'times(%s = %s) {' % (r.choice(p.regs_i), self.int_atom())] + body + [ind + '}']
            if kind == 'if':
                return [ind + 'if (%s) {' % self.cond()] + body + [ind + '}']
            if kind == 'ifelse':
                b2 = self.block_body(depth + 1, r.randint(0, 2))
                return [ind + 'if (%s) {' % self.cond()] + body + [ind + '} else {'] + b2 + [ind + '}']
            if kind == 'ifelseif':
                b2 = self.block_body(depth + 1, r.randint(0, 2))
                b3 = self.block_body(depth + 1, r.randint(0, 2))
                return [ind + 'if (%s) {' % self.cond()] + body + [ind + '} else if (%s) {' % self.cond()] + b2 + [ind + '} else {'] + b3 + [ind + '}']
            if kind == 'local':
                # a block declaring 1-3 locals (often of one type), using them, and ending their
                # scopes together; later statements allocate again
                out = [ind + '{']
                n = r.choice([1, 2, 2, 3])
                ty = r.choice(['int', 'float', 'mixed'])
                names = []
                for j in range(n):
                    self.nlocal += 1
                    v = 'loc%d' % self.nlocal
                    t = ty if ty != 'mixed' else r.choice(['int', 'float'])
                    names.append((v, t))
                    if t == 'int':
                        out.append(ind + '    int %s = %s;' % (v, self.int_expr()))
                    else:
                        out.append(ind + '    float %s = %s;' % (v, self.float_expr()))
                for v, t in names:
                    if t == 'int':
                        out.append(ind + '    %s = %s + %s;' % (r.choice(p.regs_i), v, self.int_lit()))
                    else:
                        out.append(ind + '    %s = %s * %s;' % (r.choice(p.regs_f), v, self.float_lit()))
                out += body + [ind + '}']
                if r.random() < 0.6:
                    self.nlocal += 1
                    v = 'loc%d' % self.nlocal
                    if ty == 'float':
                        out += [ind + '{', ind + '    float %s = %s;' % (v, self.float_lit()), ind + '    %s = %s;' % (r.choice(p.regs_f), v), ind + '}']
                    else:
                        out += [ind + '{', ind + '    int %s = %s;' % (v, self.int_lit()), ind + '    %s = %s;' % (r.choice(p.regs_i), v), ind + '}']
                return out
        return [ind + self.ins()]

    def diff_stmt(self, ind, depth):
        r = self.r
        k = r.random()
        if k < 0.25:
            return [ind + '{"%s"}: %s' % (r.choice(DIFFS), self.ins())]
        if k < 0.35 and self.p.exprs:
            return [ind + '{"%s"}: %s' % (r.choice(DIFFS), self.assign())]
        if k < 0.5:
            body = self.block_body(depth + 1, r.randint(1, 3))
            return [ind + '{"%s"}: {' % r.choice(DIFFS)] + body + [ind + '}']
        # a run of consecutive statements whose masks partition the difficulties: same opcode with
        # different arguments (a switch), different opcodes of one signature, a time label in
        # between, an assignment per difficulty, or an incomplete cover
        parts = r.choice([['EN', 'HL'], ['E', 'N', 'H', 'L'], ['E', 'NHL'], ['ENH', 'L'], ['E', 'N', 'HL'], ['EN', 'H'], ['N', 'E', 'L', 'H'], ['HL', 'EN']])
        kind = r.choice(['same-op', 'same-op', 'other-op', 'timed', 'assign'])
        sig_groups = {}
        for op, sg in self.p.sigs.items():
            sig_groups.setdefault(sg, []).append(op)
        op = r.choice(list(self.p.sigs))
        sg = sig_kinds(self.p.sigs[op])
        out = []
        fixed = [self.arg(c, False) for c in sg]
        var = r.randrange(len(sg)) if sg else None
        reg = r.choice(self.p.regs_i) if self.p.regs_i else None
        for j, m in enumerate(parts):
            if kind == 'timed' and j == len(parts) // 2:
                out.append(ind + self.time_label())
            if kind == 'assign' and reg:
                out.append(ind + '{"%s"}: %s = %s;' % (m, reg, self.int_lit()))
                continue
            o = op
            if kind == 'other-op' and j % 2 == 1:
                # another opcode with the same signature when there is one (SIGS has none: use 70x vs 71x twins)
                o = op + 20
            args = list(fixed)
            if var is not None:
                args[var] = self.arg(sg[var], False) if sg[var] in 'zms' else (self.int_lit() if sg[var] == 'S' else self.float_lit())
            out.append(ind + '{"%s"}: ins_%d(%s);' % (m, o, ', '.join(args)))
        return out

    def jump_shape(self):
        """goto idioms at the top nesting level: forward skip, backward loop, skip over a loop,
        do-while, if/else by hand, overlapping ranges, jump into a loop; bodies may carry time labels
        and interrupt labels"""
        r = self.r
        p = self.p

        def lab():
            self.nlabel += 1
            return 'lab%d' % self.nlabel

        def body(n=None):
            out = []
            for _ in range(r.randint(0, 2) if n is None else n):
                k = r.random()
                if p.interrupts and k < 0.25:
                    out.append('    interrupt[%d]:' % r.choice([1, 2, 5]))
                elif k < 0.45:
                    out.append('    ' + self.time_label())
                out.append('    ' + self.ins(False))
            return out

        def cgoto(l):
            if p.blocks and r.random() < 0.8:
                return '    if (%s) goto %s;' % (self.cond(), l)
            return '    goto %s;' % l

        shape = r.choice(['skip', 'loop', 'skip-over-loop', 'dowhile', 'ifelse', 'overlap', 'into-loop', 'skip-over-loop'])
        a, b, c = lab(), lab(), lab()
        if shape == 'skip':
            return [cgoto(a)] + body() + ['    %s:' % a]
        if shape == 'loop':
            return ['    %s:' % a] + body(r.randint(1, 2)) + ['    goto %s;' % a]
        if shape == 'skip-over-loop':
            return [cgoto(a), '    %s:' % b] + body(r.randint(1, 2)) + ['    goto %s;' % b, '    %s:' % a] + body()
        if shape == 'dowhile':
            return ['    %s:' % a] + body(r.randint(1, 2)) + [cgoto(a)]
        if shape == 'ifelse':
            return [cgoto(a)] + body() + ['    goto %s;' % b, '    %s:' % a] + body() + ['    %s:' % b]
        if shape == 'overlap':
            return [cgoto(a), '    %s:' % b] + body() + [cgoto(c)] + body() + ['    goto %s;' % b, '    %s:' % a] + body() + ['    %s:' % c]
        return [cgoto(a), '    %s:' % b] + body(1) + ['    %s:' % a] + body(1) + ['    goto %s @ %d;' % (b, r.choice([0, 10, -1]))]

    def script_body(self, nstmts):
        r = self.r
        p = self.p
        lines = []
        for _ in range(nstmts):
            if p.jumps and r.random() < 0.15:
                lines.extend(self.jump_shape())
            else:
                lines.extend(self.stmt(0))
        if p.jumps:
            # labels and gotos at the top nesting level only
            top = [i for i, l in enumerate(lines) if l.startswith('    ') and not l.startswith('     ')]
            nl = r.randint(0, 3)
            labels = []
            for _ in range(nl):
                if not top:
                    break
                self.nlabel += 1
                name = 'lab%d' % self.nlabel
                labels.append(name)
                pos = r.choice(top + [len(lines)])
                lines.insert(pos, '    %s:' % name)
                top = [i for i, l in enumerate(lines) if l.startswith('    ') and not l.startswith('     ')]
            for name in labels:
                for _ in range(r.randint(1, 2)):
                    pos = r.choice(top + [len(lines)])
                    k = r.random()
                    if p.blocks and k < 0.4:
                        g = 'if (%s) goto %s;' % (self.cond(), name)
                    elif k < 0.55:
                        g = 'goto %s @ %d;' % (name, r.choice([0, 5, 10, 100, -1]))
                    elif p.blocks and k < 0.65:
                        g = 'unless (%s) goto %s;' % (self.cond(), name)
                    else:
                        g = 'goto %s;' % name
                    lines.insert(pos, '    ' + g)
                    top = [i for i, l in enumerate(lines) if l.startswith('    ') and not l.startswith('     ')]
        return '\n'.join(lines) + '\n'


REGIDS = {
    'ANM_12': ([10000, 10001, 10002, 10003], [10004, 10005, 10006, 10007]),
    'ANM_16': ([10000, 10001, 10002, 10003], [10004, 10005, 10006, 10007]),
    'ECL_06': ([-10001, -10002, -10003, -10004], [-10005, -10006, -10007, -10008]),
    'ECL_07': ([10000, 10001, 10002, 10003], [10004, 10005, 10006, 10007]),
    'ECL_08': ([10000, 10001, 10002, 10003], [10016, 10017, 10018, 10019]),
}


def mapfile_for(prof, with_names, rng):
    out = [prof.mapmagic, prof.sig_section]
    enum_sigs = {}
    if with_names and prof.fmt in REGIDS and rng.random() < 0.6:
        # enum-typed arguments: values with names print as names, the others as numbers
        enum_sigs = {740: 'S(enum="GenKind")', 741: 'S(enum="GenKind")S(enum="GenMode")', 742: 'S(enum="GenMode")f'}
        for op, sg in enum_sigs.items():
            out.append('%d %s' % (op, sg))
    for op, sig in prof.sigs.items():
        out.append('%d %s' % (op, sig))
        out.append('%d %s' % (op + 20, sig))
    if with_names:
        out.append('!ins_names')
        for op in prof.sigs:
            if rng.random() < 0.6:
                out.append('%d gen%d' % (op, op))
        if prof.fmt in REGIDS and rng.random() < 0.7:
            # second names for the registers (the last name given wins when decompiling)
            ints, floats = REGIDS[prof.fmt]
            out.append('!gvar_names')
            for k, r in enumerate(ints):
                if rng.random() < 0.7:
                    out.append('%d genI%d' % (r, k))
            for k, r in enumerate(floats):
                if rng.random() < 0.7:
                    out.append('%d genF%d' % (r, k))
    if enum_sigs:
        out += ['!enum(name="GenKind")', '0 KindZero', '1 KindOne', '7 KindSeven', '-1 KindMinus',
                '!enum(name="GenMode")', '0 ModeZero', '2 ModeTwo', '7 ModeSeven']
    return '\n'.join(out) + '\n', enum_sigs


def generate(seed=20260923, per_profile=24):
    items = []
    for pname, prof in PROFILES.items():
        for k in range(per_profile):
            rng = random.Random('%s/%s/%d' % (seed, pname, k))
            g = Gen(prof, rng)
            n = rng.choice([2, 4, 6, 10, 16])
            main = g.script_body(n)
            extra_items = ''
            if prof.multi == 'script' and rng.random() < 0.5:
                for j in range(rng.randint(1, 3)):
                    extra_items += 'script gens%d {\n%s}\n' % (j, g.script_body(rng.choice([1, 3, 6])))
            if prof.multi == 'sub' and rng.random() < 0.5:
                for j in range(rng.randint(1, 3)):
                    extra_items += 'void gensub%d() {\n%s}\n' % (j, g.script_body(rng.choice([1, 3, 6])))
            full = None
            if prof.multi == 'msg':
                names = ['main'] + ['gens%d' % j for j in range(rng.randint(0, 3))]
                flags = ', flags: 256' if prof.fmt != 'MSG_06' else ''
                table = ''.join('        %d: {script: "%s"%s},\n' % (i * rng.choice([1, 1, 2]), nm, flags) for i, nm in enumerate(names))
                # indices must be distinct
                idx = sorted(set(rng.sample(range(0, 12), len(names))))
                table = ''.join('        %d: {script: "%s"%s},\n' % (i, nm, flags) for i, nm in zip(idx, names))
                full = '#pragma mapfile "map/any.msgm"\n\nmeta {\n    table: {\n%s    }\n}\n\nscript main {\n%s}\n' % (table, main)
                for nm in names[1:]:
                    full += 'script %s {\n%s}\n' % (nm, g.script_body(rng.choice([1, 3, 6])))
            # named constants passed straight to instructions (their values end up in the debug info)
            const_items = ''
            if rng.random() < 0.5:
                int_ops = [op for op, sg in prof.sigs.items() if sig_kinds(sg) and all(c == 'S' for c in sig_kinds(sg))]
                flt_ops = [op for op, sg in prof.sigs.items() if sig_kinds(sg) == ['f']]
                uses = ''
                for j in range(rng.randint(1, 3)):
                    if int_ops and (not flt_ops or rng.random() < 0.6):
                        nm = 'GC%d' % j
                        const_items += 'const int %s = %s;\n' % (nm, rng.choice(['%d' % rng.randint(-50, 5000), '%d * %d' % (rng.randint(2, 9), rng.randint(2, 99)), '(%d + %d) %% %d' % (rng.randint(1, 99), rng.randint(1, 99), rng.randint(2, 9)), '0x%x' % rng.randint(0, 65535)]))
                        op = rng.choice(int_ops)
                        n = len(sig_kinds(prof.sigs[op]))
                        uses += '    ins_%d(%s);\n' % (op, ', '.join([nm] + [g.int_lit() for _ in range(n - 1)]))
                    elif flt_ops:
                        nm = 'GF%d' % j
                        const_items += 'const float %s = %s;\n' % (nm, rng.choice(['1.5', '-0.25', '2.0 * 3.5', '100.0 / 8.0']))
                        uses += '    ins_%d(%s);\n' % (rng.choice(flt_ops), nm)
                main = main + uses
                if full is not None:
                    full = full.replace('script main {\n', const_items + 'script main {\n', 1).replace(main[:-len(uses)] + '}', main + '}', 1) if uses else full
                extra_items = const_items + extra_items
            mapfile, enum_sigs = mapfile_for(prof, rng.random() < 0.5, rng)
            if enum_sigs:
                kinds = ['KindZero', 'KindOne', 'KindSeven', 'KindMinus', '3', '1', 'GenKind.KindOne']
                modes = ['ModeZero', 'ModeTwo', 'ModeSeven', '1', '2', 'GenMode.ModeSeven']
                extra = ''
                for _ in range(rng.randint(1, 4)):
                    op = rng.choice([740, 741, 742])
                    if op == 740:
                        extra += '    ins_740(%s);\n' % rng.choice(kinds)
                    elif op == 741:
                        extra += '    ins_741(%s, %s);\n' % (rng.choice(kinds), rng.choice(modes))
                    else:
                        extra += '    ins_742(%s, %s);\n' % (rng.choice(modes), g.float_lit())
                main = extra + main
            items.append({
                'id': 'gen/%s-%02d' % (pname, k), 'fmt': prof.fmt, 'main_body': main, 'items': extra_items, 'full': full,
                'mapfile': mapfile,
            })
    return items


if __name__ == '__main__':
    for it in generate():
        print('=====', it['id'])
        print(it['items'] + it['main_body'])
