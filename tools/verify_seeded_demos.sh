#!/bin/sh
# For every /verif/seeded/<id>: the agent's demonstration must PASS (exit 0) on the unchanged tree
# and FAIL (non-zero) with the patch applied.  Builds the release binary in .cache each time and
# always restores /repo.  Results are appended to seeded/<id>/verified.txt.
cd "$(dirname "$0")/.." || exit 2
BIN="$PWD/.cache/truth-target/release/truth-core"
unset RUST_BACKTRACE
if [ -n "$(git -C /repo status --porcelain --untracked-files=no)" ]; then echo "/repo dirty"; exit 2; fi
./check build-only >/dev/null || exit 2
ids="${*:-$(ls seeded)}"
for id in $ids; do
  d="seeded/$id"; [ -f "$d/demo.sh" ] || continue
  ( cd "$d" && bash ./demo.sh "$BIN" >/tmp/demo.$$.out 2>&1 ); base=$?
  echo "$id: unchanged tree -> demo exit $base"
  echo "$(date -u +%FT%TZ) unchanged tree ($(git -C /repo rev-parse --short HEAD)): demo exit $base" >> "$d/verified.txt"
done
for id in $ids; do
  d="seeded/$id"; [ -f "$d/demo.sh" ] || continue
  git -C /repo apply "$PWD/$d/patch.diff" || { echo "$id: patch does not apply"; continue; }
  ./check build-only >/dev/null; b=$?
  ( cd "$d" && bash ./demo.sh "$BIN" >/tmp/demo.$$.out 2>&1 ); seeded=$?
  git -C /repo checkout -- .
  echo "$id: with patch (build exit $b) -> demo exit $seeded"
  echo "$(date -u +%FT%TZ) with patch.diff applied: build exit $b, demo exit $seeded" >> "$d/verified.txt"
done
./check build-only >/dev/null
rm -f /tmp/demo.$$.out
