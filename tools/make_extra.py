#!/usr/bin/env python3
"""Hand-written workload items (corpus/extra.json): the *competition set* of DESIGN.md appendix B
(inputs with >= 2 competing entries in every hash-keyed table of truth) and formats the
repository's own tests do not cover through source_test! (mission MSG, ending MSG, multi-script
files whose outputs exceed the 8 KiB BufWriter).

Run: python3 tools/make_extra.py   (reads corpus/items.json for the format templates)
"""
import json, os, sys
sys.path.insert(0, os.path.dirname(os.path.abspath(__file__)))

ROOT = os.path.join(os.path.dirname(os.path.abspath(__file__)), '..', 'corpus')
fmts = json.load(open(os.path.join(ROOT, 'items.json')))['formats']


def make_main(tpl, body):
    return tpl.replace('{body}', body).replace('\x01', '{').replace('\x02', '}')


def src(fmt, main_body='', items='', full=None):
    f = fmts[fmt]
    if full is not None:
        return full
    return "%s\n%s\n%s" % (f['script_head'], items, make_main(f['main_tpl'], main_body))


items = []


def add(id_, fmt, tags=(), mapfiles=(), compile_args=(), decompile_args=(), files=None, **kw):
    f = fmts[fmt]
    items.append({
        'kind': 'source', 'id': 'extra/' + id_, 'format': fmt, 'cmd': f['cmd'], 'game': kw.pop('game', f['game']),
        'mapfiles': list(mapfiles), 'compile_mapfiles': [], 'decompile_mapfiles': [],
        'compile_args': list(compile_args), 'decompile_args': list(decompile_args),
        'source': src(fmt, **kw), 'files': files or {}, 'tags': ['competition'] + list(tags),
    })


# --- clashing_names_for_regs (stackless.rs): two parameters also named by register
add('competition/eosd-reg-clash', 'ECL_06', items='''
void foo(float x, int a) {
    %REG[-10005] = 24.0;
    $REG[-10001] = 3;
    %REG[-10006] = x;
    $REG[-10002] = a;
}
void bar(int b, float y) {
    $REG[-10001] = b;
    %REG[-10005] = y;
    $REG[-10003] = 2;
    %REG[-10007] = 1.0;
    $REG[-10002] = b + 1;
    %REG[-10006] = y + 1.0;
}
''')

# --- Mapfile.enums (defs.rs): several enums -> debug info consts, decompiled names
ENUMS3 = '''!anmmap
!ins_signatures
900 S(enum="Alpha")
901 S(enum="Beta")
902 S(enum="Gamma")
903 SSS
!enum(name="Alpha")
1 One
2 Two
3 Shared
!enum(name="Beta")
1 Uno
2 Dos
30 Shared
!enum(name="Gamma")
10 Ten
20 Twenty
300 Shared
'''
add('competition/mapfile-3-enums', 'ANM_12', mapfiles=[ENUMS3], main_body='''
    ins_900(One);
    ins_900(Alpha.Shared);
    ins_901(Dos);
    ins_901(Beta.Shared);
    ins_902(Twenty);
    ins_902(Gamma.Shared);
    ins_903(1, 2, 10);
    ins_900(3);
    ins_901(30);
    ins_902(300);
''')
add('competition/mapfile-3-enums-ambiguous', 'ANM_12', mapfiles=[ENUMS3], main_body='''
    ins_903(Shared, Shared, Shared);
    I0 = Shared + Uno + Ten;
''')

# --- Defs.instrs iteration (defs.rs): several signatures naming non-existent enums
add('competition/mapfile-bad-enum-sigs', 'ANM_12', mapfiles=['''!anmmap
!ins_signatures
900 S(enum="Nope1")
901 S(enum="Nope2")
902 S(enum="Nope3")
903 S(enum="Nope4")
'''], main_body='')

# --- did-you-mean over Defs.enums keys: equidistant candidates
add('competition/enum-did-you-mean', 'ANM_12', mapfiles=['''!anmmap
!ins_signatures
900 S(enum="Abcx")
!enum(name="Abcd")
1 A
!enum(name="Abce")
1 B
!enum(name="Abcf")
1 C
'''], main_body='')
add('competition/enum-did-you-mean-in-source', 'ANM_12', mapfiles=['''!anmmap
!enum(name="Abcd")
1 A
!enum(name="Abce")
1 B
!enum(name="Abcf")
1 C
'''], main_body='''
    I0 = Abcx.A;
    I1 = Abcy.B;
''')

# --- aliases: several names for one opcode/register and one name for several
ALIAS1 = '''!anmmap
!ins_names
900 first
901 second
902 third
!ins_signatures
900 S
901 S
902 S
!gvar_names
10000 regA
10001 regB
10002 regC
!gvar_types
10000 $
10001 $
10002 $
'''
ALIAS2 = '''!anmmap
!ins_names
900 uno
901 dos
902 third
!gvar_names
10000 rA
10001 rB
10002 regC
'''
add('competition/multi-alias', 'ANM_12', mapfiles=[ALIAS1, ALIAS2], main_body='''
    first(1);
    uno(2);
    second(regA);
    dos(rA);
    third(regB + rB + regC);
    ins_900(I0);
''')

# --- ParseObject.valid_fields (meta.rs): several unknown fields in one object
add('competition/unknown-meta-fields', 'STD_08', full='''
#pragma mapfile "map/any.stdm"

meta {
    unknown: 0,
    stage_name: "dm",
    zzz_bogus: 1,
    aaa_bogus: 2,
    mmm_bogus: 3,
    bgm: [
        {path: "bgm/th08_08.mid", name: "dm", qqq: 1, bbb: 2},
        {path: "bgm/th08_09.mid", name: "dm"},
        {path: " ", name: " "},
        {path: " ", name: " "},
    ],
    objects: {},
    instances: [],
}

script main {
}
''')

# --- RibStacks (resolve): several unresolved names, redefinitions and shadowing in one block
add('competition/unresolved-names', 'ANM_12', main_body='''
    int a = bogus1 + bogus2;
    int b = bogus3(bogus4, bogus5);
    float a = 2.0;
    int b = 3;
    bogusFunc6();
    I0 = Nope7.X + Nope8.Y;
''')
add('competition/redefinitions', 'ANM_12', items='''
const int X = 1;
const int X = 2;
const int Y = X + Z;
const int Z = Y;
const float W = 1;
const int V = 2.0;
''', main_body='''
    I0 = X + Y + Z;
''')

# --- type errors: many at once (ordering of independent diagnostics)
add('competition/many-type-errors', 'ANM_12', main_body='''
    I0 = 1.0;
    F0 = 1;
    I1 = F0 + I0;
    F1 = I1 * 2.0;
    I2 = "str";
    F2 = sin(I0);
    if (F0) { nop(); }
    times(F1) { nop(); }
''')

# --- ECL sub names (ecl_06.rs) and call signatures
add('competition/duplicate-subs', 'ECL_06', items='''
void dup() {}
void dup() {}
void dup2(int a) {}
void dup2(float a) {}
void other() {
    dup();
    dup2(1);
    nosuch1();
    nosuch2(3);
}
''')
add('competition/pcb-many-calls', 'ECL_07', items='''
void callee1(int a, float x) { I2 = a; F2 = x; }
void callee2(float x, float y, int a) { F2 = x + y; I2 = a; }
void callee3(int a, int b, int c) { I2 = a + b + c; }
void caller() {
    callee1(1, 2.0);
    callee2(1.0, 2.0, 3);
    callee3(1, 2, 3);
    callee1(I0, F0);
}
''', decompile_args=[])

# --- ANM scratch register exhaustion, int and float at once
add('competition/anm-scratch-exhaustion', 'ANM_12', main_body='''
    int a = I0 * 2; int b = a * 3; int c = b * 4; int d = c * 5; int e = d * 6; int f = e * 7;
    float p = F0 * 2.0; float q = p * 3.0; float r = q * 4.0; float s = r * 5.0; float t = s * 6.0;
    I1 = a + b + c + d + e + f;
    F1 = p + q + r + s + t;
''')
add('competition/anm-many-locals-ok', 'ANM_12', main_body='''
    int a = I0 * 2;
    float p = F0 * 2.0;
    I0 = (a + 3) * (a - 1);
    F0 = (p + 1.5) * (p - 2.0);
    {
        int c = I0 + 1;
        float r = F0 + 1.0;
        I0 = c; F0 = r;
    }
    {
        int d = a * 7;
        I0 = d;
    }
''', tags=['debuginfo-locals'])

# --- difficulty flags / labels
add('competition/diff-flags', 'ECL_06', mapfiles=['''!eclmap
!ins_signatures
900 S
!difficulty_flags
4 X-
5 Y+
6 Z-
7 W+
'''], items='''
void sub_d() {
    {"ENHL"}: ins_900(1);
    {"EN"}: ins_900(2);
    {"X"}: ins_900(3);
    {"Y"}: ins_900(4);
    {"*-Z"}: ins_900(5);
    ins_900(1:2:3:4);
}
''')

# --- interrupts / labels in decompile (label refcounts)
add('competition/many-labels', 'ANM_12', main_body='''
    I0 = 10;
  loopA:
    I0 -= 1;
    if (I0 == 5) goto mid;
    if (I0 > 0) goto loopA;
  mid:
    I1 = 3;
  loopB:
    I1 -= 1;
    if (I1 == 2) goto loopA;
    if (I1 > 0) goto loopB;
    goto end;
  unused1:
    nop();
  end:
    nop();
''')

# --- MSG: several scripts, sparse table, shared scripts
add('competition/msg-sparse-table', 'MSG_06', full='''
#pragma mapfile "map/any.msgm"

meta {
    table: {
        0: {script: "script0"},
        3: {script: "script1"},
        4: {script: "script0"},
        9: {script: "script2"},
        default: {script: "script1"},
    }
}

script script0 { textSet(0, 0, "hello"); }
script script1 { textSet(0, 1, "world"); +10: textSet(1, 0, "again"); }
script script2 { ins_0(); }
''')

# --- mapfile-level competition: several unknown sections, several bad identifiers, duplicate keys
add('competition/mapfile-unknown-sections', 'ANM_12', mapfiles=['''!anmmap
!zzz_section
1 a
!aaa_section
2 b
!mmm_section
3 c
!ins_names
900 fine
!ins_signatures
900 S
'''], main_body='    fine(1);\n')
add('competition/mapfile-bad-idents', 'ANM_12', mapfiles=['''!anmmap
!ins_names
900 bad-name
901 9starts_with_digit
902 also.bad
!gvar_names
10000 x-y
10001 if
'''], main_body='')
add('competition/mapfile-two-files-conflicts', 'ANM_12', mapfiles=['''!anmmap
!ins_names
900 alpha
901 beta
!ins_signatures
900 S
901 f
!gvar_names
10000 ga
10004 gb
!gvar_types
10000 $
10004 %
''', '''!anmmap
!ins_names
900 beta
901 alpha
!ins_signatures
900 f
901 S
!gvar_names
10000 gb
10004 ga
'''], main_body='''
    alpha(1);
    beta(2.0);
    ins_900(1.5);
    ins_901(3);
    I1 = ga;
    F1 = gb;
''')
add('competition/anm-dup-sprites-across-entries', 'ANM_12', full='''
#pragma mapfile "map/any.anmm"
entry {
    path: "subdir/a.png", has_data: false, img_width: 16, img_height: 16, img_format: 3, offset_x: 0, offset_y: 0,
    colorkey: 0, memory_priority: 0, low_res_scale: false,
    sprites: { spA: {id: 5, x: 0.0, y: 0.0, w: 1.0, h: 1.0}, spB: {x: 0.0, y: 0.0, w: 2.0, h: 2.0}, spC: {id: 2, x: 0.0, y: 0.0, w: 3.0, h: 3.0} },
}
script sA { sprite(spA); sprite(spD); scriptNew(sC); }
script 7 sB { sprite(spB); }
entry {
    path: "subdir/b.png", has_data: false, img_width: 16, img_height: 16, img_format: 3, offset_x: 0, offset_y: 0,
    colorkey: 0, memory_priority: 0, low_res_scale: false,
    sprites: { spD: {x: 0.0, y: 0.0, w: 4.0, h: 4.0}, spE: {id: 5, x: 0.0, y: 0.0, w: 5.0, h: 5.0}, spF: {id: 40, x: 0.0, y: 0.0, w: 6.0, h: 6.0} },
}
script sC { sprite(spE); sprite(spF); scriptNew(sA); }
script 3 sD { sprite(spC); }
''')
add('competition/ecl-many-subs-and-timelines', 'ECL_06', mapfiles=['''!eclmap
!timeline_ins_signatures
10 S
11 s(arg0)S
'''], full='''
#pragma mapfile "map/any.eclm"
script timeline0 { ins_10(100); +10: ins_10(200); ins_11(subB, 3); +20: ins_11(subC, 4); }
void subA() { subB(1); }
void subB(int a) { I2 = a; subC(1.0); }
void subC(float x) { F2 = x; subA(); }
void subD(int a, float x) { I3 = a; F3 = x; subD(a, x); subD(3, 1.5); }
''')
add('competition/eosd-call-complex-args', 'ECL_06', items='''
void subD(int a, float x) { I3 = a; F3 = x; subD(a + 1, x * 2.0); }
void subE(int a) { subE(I0 * 2); subE(a ? 1 : 2); }
''')

# =====================================================================================
# feature-coverage items: constructs the harvested tests do not combine

# --- intrinsic table competition: two opcodes for the same intrinsic (which one the compiler picks)
add('competition/anm-duplicate-intrinsics', 'ANM_12', mapfiles=['''!anmmap
!ins_signatures
900 SS
901 SSS
902 So
903 Sot
904 ot
!ins_intrinsics
900 AssignOp(op="="; type="int")
901 BinOp(op="+"; type="int")
902 CountJmp(op=">")
903 CountJmp()
904 Jmp()
'''], main_body='''
    I0 = 3;
    I1 = I0 + 4;
    times(I2 = 5) { nop(); }
  again:
    I1 = I1 + 1;
    if (I1 < 10) goto again;
    loop { I0 = I0 + 1; if (I0 == 20) break; }
''')
# (tagged no-roundtrip: the recompile of the decompiled text sees the mapfiles in a different order than
#  the original compile - `-m` file first, then the source's `#pragma mapfile "map/any.eclm"` - so a mapfile
#  that re-maps a builtin intrinsic legitimately changes which opcode is chosen; that is the scenario's
#  doing, not a round-trip defect)
add('competition/ecl07-duplicate-intrinsics', 'ECL_07', tags=['no-roundtrip'], mapfiles=['''!eclmap
!ins_signatures
999 Sot
998 SS
!ins_intrinsics
999 CountJmp()
998 AssignOp(op="="; type="int")
'''], main_body='''
    times(I0 = 4) { I1 = 7; }
    I2 = 9;
''')
add('competition/intrinsics-without-signatures', 'ANM_12', mapfiles=['''!anmmap
!ins_intrinsics
900 Jmp()
901 CountJmp()
902 AssignOp(op="="; type="int")
903 BinOp(op="+"; type="float")
904 UnOp(op="sin"; type="float")
905 InterruptLabel()
'''], main_body='    nop();\n')
add('competition/intrinsics-bad-signatures', 'ANM_12', mapfiles=['''!anmmap
!ins_signatures
900 S
901 ff
902 SSSS
903 o
!ins_intrinsics
900 Jmp()
901 CountJmp()
902 AssignOp(op="="; type="int")
903 BinOp(op="+"; type="float")
'''], main_body='    nop();\n')
add('competition/two-jmp-layouts', 'STD_12', mapfiles=['''!stdmap
!ins_signatures
900 ot
901 to
902 Sot
903 Sto
!ins_intrinsics
900 Jmp()
901 Jmp()
902 CountJmp()
903 CountJmp()
'''], main_body='''
  top:
    ins_0();
+100:
    loop { ins_0(); }
    goto top @ 0;
''')
# --- PCB-style call signature inference with conflicting call sites in different subs
add('competition/pcb-conflicting-callsites', 'ECL_07', items='''
void targetA() {}
void targetB() {}
void targetC() {}
void wideA()   { ARG_A = 3; ARG_B = 4; call(targetA); }
void narrowA() { ARG_A = 3; call(targetA); }
void floatB()  { ARG_R = 1.5; call(targetB); }
void intB()    { ARG_A = 2; call(targetB); }
void mixC1()   { ARG_A = 1; ARG_R = 2.0; ARG_B = 3; call(targetC); }
void mixC2()   { ARG_R = 2.0; call(targetC); }
void mixC3()   { call(targetC); }
''')
# --- difficulty: >= 3 variants with time labels in between, in subs and (TH08) in timelines
add('feature/ecl06-diff-variants-with-times', 'ECL_06', main_body='''
    {"E"}: I0 = 1;
    {"N"}: I0 = 2;
+10:
    {"H"}: I0 = 3;
    {"L"}: I0 = 4;
    {"EN"}: F0 = 1.0;
    {"HL"}: F0 = 2.0;
+5:
    I1 = 1:2:3:4;
    F1 = 1.0:1.0:2.0:2.0;
    {"E"}: I2 = 5;
+7:
    {"N"}: I2 = 6;
    {"H"}: I2 = 7;
    {"L"}: I2 = 8;
''')
add('feature/ecl08-timeline-difficulty', 'ECL_08', mapfiles=['''!eclmap
!timeline_ins_signatures
10 S
11 S
'''], full='''
#pragma mapfile "map/any.eclm"
script timeline0 {
    ins_10(100);
+10:
    {"E"}: ins_10(1);
    {"HL"}: ins_10(2);
+20:
    {"N"}: ins_10(3);
    ins_10(4);
}
script timeline1 {
    {"L"}: ins_10(7);
}
void sub0() {
    {"E"}: I0 = 1;
    {"HL"}: I0 = 2;
}
void sub1() {}
''')
# --- TH10 ECL header lists with non-ASCII names of every length class mod 4
add('feature/ecl10-nonascii-lists', 'ECL_10', full='''
meta {
    ecli: ["default.ecl", "ボス.ecl", "あ.ecl"],
    anim: ["enemy.anm", "ボス1.anm", "漢字漢.anm", "x.anm"],
}
void main() {
}
void other() {
}
''')
# --- mission MSG with every player value and text in every line (cipher key depends on stage, scene, player, line)
add('feature/mission-th125-players', 'MSG_09', game='th125', compile_args=['--mission'], tags=['--mission'], full='''
entry {
    stage: 3, scene: 5, player: 1, unknown_1: 9, unknown_2: 8, point_1: 1000, point_2: 2000,
    furigana: [[1, 2], [3, 4], [5, 6]],
    text: ["player one line one", "two", "three", "four", "five", "six"],
}
entry {
    stage: 255, scene: 254, player: 2, unknown_1: 0, unknown_2: 1, point_1: 7, point_2: 8,
    furigana: [[0, 0], [0, 0], [9, 9]],
    text: ["にほんご", "kana カナ", "", "x", "yy", "zzz"],
}
''')
add('feature/mission-th095-japanese', 'MSG_09', game='th095', compile_args=['--mission'], tags=['--mission'], full='''
entry { stage: 10, scene: 9, face: 3, point: 123456, text: ["日本語のテキスト", "ｶﾀｶﾅ half", "mixed 漢字 text"] }
entry { stage: 0, scene: 0, face: 0, point: 0, text: ["", "", ""] }
''')
# --- MSG: strings with multi-byte text, several string instructions in a row (furigana quirk games)
for fmt in ('MSG_06', 'MSG_09', 'MSG_12', 'MSG_17'):
    add('feature/%s-strings' % fmt.lower(), fmt, full='''
#pragma mapfile "map/any.msgm"

meta {
    table: {
        0: {script: "main"},
        1: {script: "second"},
        default: {script: "main"},
    }
}

script main {
    textSet(0, 0, "hello world");
+10:
    textSet(0, 1, "日本語のテキスト");
    textSet(1, 0, "");
+20:
    textSet(1, 1, "a");
    textSet(0, 0, "ab");
    textSet(0, 0, "abc");
    textSet(0, 0, "abcd");
}

script second {
    textSet(0, 0, "カタカナ ｶﾀｶﾅ");
}
''' if fmt in ('MSG_06',) else '''
#pragma mapfile "map/any.msgm"

meta {
    table: {
        0: {script: "main", flags: 256},
        1: {script: "second", flags: 0},
        default: {script: "main", flags: 256},
    }
}

script main {
    ins_0();
}

script second {
    ins_0();
}
''')
# --- STD: objects with several quads, instances in non-trivial order, a script with jumps and interrupts
add('feature/std08-objects-script', 'STD_08', full='''
#pragma mapfile "map/any.stdm"

meta {
    unknown: 0,
    stage_name: "dm",
    bgm: [
        {path: "bgm/th08_08.mid", name: "dm"},
        {path: "bgm/th08_09.mid", name: "dm"},
        {path: " ", name: " "},
        {path: " ", name: " "},
    ],
    objects: {
        blurb: {
            layer: 0,
            pos: [-320.0, -128.0, -12.0],
            size: [768.0, 384.0, 0.0],
            quads: [
                rect {anm_script: 0, pos: [-64.0, 0.0, -12.0], size: [512.0, 256.0]},
                rect {anm_script: 3, pos: [1.0, 2.0, 3.0], size: [4.0, 5.0]},
                strip {anm_script: 1, start: [218.0, 192.0, 0.0], end: [268.0, 192.0, -280.0], width: 5.0},
            ],
        },
        blorb: {
            layer: 1,
            pos: [-81.602196, -140.91132, -425.6022],
            size: [531.2044, 505.268, 571.2044],
            quads: [rect {anm_script: 2, pos: [64.0, 224.0, -64.0], size: [112.0, 96.0]}],
        },
        empty: { layer: 2, pos: [0.0, 0.0, 0.0], size: [1.0, 1.0, 1.0], quads: [] },
    },
    instances: [
        blorb {pos: [320.0, 4296.0, 0.0]},
        blurb {pos: [-192.0, 6600.0, 0.0]},
        empty {pos: [0.0, 0.0, 0.0]},
        blorb {pos: [1.0, 2.0, 3.0]},
    ],
}

script main {
    posKeyframe(0.0, 0.0, 0.0);
+60:
  again:
    posKeyframe(1.0, 2.0, 3.0);
    interrupt[1]:
+30:
    posKeyframe(4.0, 5.0, 6.0);
    goto again @ 60;
}
''')
# --- ANM: several entries and scripts, interrupts, negative and decreasing times, nested blocks
add('feature/anm12-control-flow', 'ANM_12', main_body='''
    I0 = 0;
-5:
    nop();
0:
    while (I0 < 10) {
        I0 += 1;
        if (I0 == 5) { F0 = 1.5; } else if (I0 == 7) { F0 = 2.5; } else { F0 = 0.0; }
        times(I1 = 3) { nop(); { int t = I0 * 2; I2 = t; } }
    }
    interrupt[2]:
+10:
    do { I0 -= 1; } while (I0 > 0);
    interrupt[3]:
    loop { I3 = I3 + 1; if (I3 > 4) break; }
10:
    nop();
5:
    nop();
''')

# --- errors placed inside every kind of nested statement (each must be diagnosed, not crash)
add('feature/errors-in-nested-statements', 'ANM_12', main_body='''
    { F0 = 1; }
    { { I0 = 2.0; } }
    loop { { F1 = I1; } break; }
    times(3) { { I2 = "s"; } }
    if (I0 == 0) { { F2 = 1; } } else { { I3 = 1.0; } }
    while (I0 < 3) { I0 += 1; { F3 = I0; } }
    { int x = 2.0; { float y = 1; } }
''')
add('feature/const-division-by-zero', 'ANM_12', items='''
const int Z = 0;
const int A = 7 / Z;
const int B = 7 % (Z * 3);
''', main_body='''
    I0 = 5 / 0;
    I1 = 5 % 0;
    I2 = A + B;
    F0 = 1.0 / 0.0;
    I3 = I0 / 0;
''')

# --- TH12+ MSG furigana lines in every position relative to other text, across several scripts
for fmt in ('MSG_11', 'MSG_12', 'MSG_17'):
    add('feature/%s-furigana-across-scripts' % fmt.lower(), fmt, full='''
#pragma mapfile "map/any.msgm"

meta {
    table: {
        0: {script: "first", flags: 256},
        1: {script: "second", flags: 256},
        2: {script: "third", flags: 0},
    }
}

script first {
    textAdd("plain line");
    textAdd("|4,9,abcdefghijklmn");
}

script second {
    textAdd("ABCD_EFGHIJK");
+10:
    textAdd("|0,3,furi");
    textAdd("after furigana");
    textAdd("|1,2,xy");
}

script third {
    textAdd("x");
    textAdd("|2,5,last one is furigana");
}
''')
# --- TH10 ECL: constructs the stack-based lowerer rejects (must fail with exit 1, not exit 0)
add('feature/ecl10-unsupported-constructs', 'ECL_10', full='''
meta {
    ecli: [],
    anim: [],
}
void main() {
  again:
    goto again;
}
void other() {
    loop { break; }
}
''')
add('feature/ecl10-type-errors', 'ECL_10', full='''
meta {
    ecli: [],
    anim: [],
}
void main() {
    int x = 1.0;
    float y = 2;
}
''')
# --- lexical and nesting stress (nesting depth up to 256 is part of C04's quantifier)
deep = 256
add('feature/deep-paren-nesting', 'ANM_12', main_body='    I0 = %s1%s;\n' % ('(' * deep, ')' * deep))
add('feature/deep-block-nesting', 'ANM_12', main_body='    %s I0 = 1; %s\n' % ('{ ' * deep, ' }' * deep))
add('feature/deep-unary-chain', 'ANM_12', main_body='    I0 = %s1;\n    F0 = %s1.0;\n' % ('- ' * deep, '-(' * 128 + ''), )
add('feature/deep-if-nesting', 'ANM_12', main_body='    %s I1 = 2; %s\n' % ('if (I0 == 0) { ' * 128, ' }' * 128))
add('feature/deep-binop-chain', 'ANM_12', main_body='    I0 = %s1;\n    I1 = 1%s;\n' % ('1 + ' * 600, ' * (2' * 200 + ')' * 200))
add('feature/extreme-literals', 'ANM_12', main_body='''
    I0 = 2147483647;
    I0 = -2147483648;
    I0 = 2147483648;
    I0 = 99999999999999999999;
    I0 = 0xFFFFFFFF;
    I0 = 0x100000000;
    I0 = 0b11111111111111111111111111111111;
    F0 = 1e38;
    F0 = 1e39;
    F0 = 1e999;
    F0 = 0.000000000000000000000000000000000000000000001;
    F0 = 340282350000000000000000000000000000000.0;
    I1 = 1 << 32;
    I1 = 1 << -1;
    I1 = 1 >> 999;
    I1 = -2147483648 / -1;
    I1 = -2147483648 % -1;
    ins_99999999999();
    ins_65536();
    $REG[99999999999] = 1;
''')
add('feature/mapfile-extreme-keys', 'ANM_12', mapfiles=['''!anmmap
!ins_names
99999999999 tooBig
-99999999999 tooSmall
2147483648 justOver
-1 negative
0x10 hexKey
!ins_signatures
65536 S
99999999999 S
!gvar_names
99999999999 bigReg
'''], main_body='    nop();\n')

# --- mission MSG (no source_test coverage): th095 and th125
add('mission/th095', 'MSG_09', game='th095', compile_args=['--mission'], tags=['--mission'], full='''
entry {
    stage: 1,
    scene: 2,
    face: 0,
    point: 100,
    text: ["first line", "second line", "third"],
}
entry {
    stage: 3,
    scene: 4,
    face: 2,
    point: 9999,
    text: ["", "x", "yz"],
}
''')
add('mission/th125', 'MSG_09', game='th125', compile_args=['--mission'], tags=['--mission'], full='''
const int P = 3;
entry {
    stage: 1, scene: 1, player: 0, unknown_1: 1, unknown_2: 2, point_1: P, point_2: P * 2,
    furigana: [[0, 1], [2, 3], [4, 5]],
    text: ["a", "b", "c", "d", "e", "f"],
}
entry {
    stage: 12, scene: 7, player: 1, unknown_1: 0, unknown_2: 0, point_1: 0, point_2: 0,
    furigana: [[0, 0], [0, 0], [0, 0]],
    text: ["line one", "line two", "line three", "line four", "line five", "line six"],
}
''')
add('mission/th095-bad', 'MSG_09', game='th095', compile_args=['--mission'], tags=['--mission'], full='''
entry {
    stage: 1,
    scene: 2,
    bogus_a: 1,
    bogus_b: 2,
    text: ["first line", "second line"],
}
script nope {}
''')

# --- ending MSG
add('ending/th10', 'END_10', compile_args=['--ending'], decompile_args=['--ending'], tags=['--ending'], main_body='''
    ins_3("line one");
    +30: ins_3("line two");
    ins_0();
''')

# --- big outputs: more than 8 KiB of binary and of debug info, so BufWriter spills mid-stream
body = ''.join('    int v%d = I0 * %d; I1 = v%d + %d; F0 = F1 * %d.5;\n' % (i, i + 2, i, i, i) for i in range(24))
big_items = ''.join('script big%d {\n%s}\n' % (k, ''.join('    { int v%d = I0 * %d; I1 = v%d + %d; }\n    +%d: F0 = F1 * %d.5;\n' % (i, i + 2, i, i, i + 1, i) for i in range(50))) for k in range(3))
add('big/anm-many-scripts', 'ANM_12', items=big_items, main_body='    nop();\n', tags=['big'])
big_msg = '''
#pragma mapfile "map/any.msgm"

meta {
    table: {
%s
    }
}

%s
''' % (''.join('        %d: {script: "s%d"},\n' % (i, i) for i in range(24)),
       ''.join('script s%d {\n%s}\n' % (i, ''.join('    +%d: textSet(0, %d, "message number %d of script %d, padded to be long enough");\n' % (j + 1, j % 2, j, i) for j in range(8))) for i in range(24)))
add('big/msg-many-scripts', 'MSG_06', full=big_msg, tags=['big'])

# --- findings first seen on generated programs, kept as small hand-written items
# (a) TH06-09 STD: an instruction whose signature is not 12 bytes of arguments
add('feature/std08-signature-not-12-bytes', 'STD_08', mapfiles=['!stdmap\n!ins_signatures\n700 S\n701 SSSS\n'], main_body='''
    ins_700(1);
+10:
    ins_701(1, 2, 3, 4);
''')
# (b) count jump of the `--x > 0` kind as the condition of a forward jump (if-block recovery must not negate it)
for fmt in ['ECL_06', 'ECL_07', 'ECL_08']:
    add('feature/%s-countjmp-forward' % fmt.lower().replace('_', ''), fmt, main_body='''
    if (--I1 > 0) goto skip;
    nop();
+10:
    nop();
skip:
    if (--I2 > 0) goto other;
    nop();
    goto end;
other:
    nop();
end:
    nop();
''')
# (c) string with an embedded NUL in a masked furibug string argument (TH12+ MSG text): the masked NUL is stored,
#     decompile cuts the string there without a warning (it cannot tell it from furigana-bug garbage)
add('feature/msg12-furibug-embedded-nul', 'MSG_12', main_body='''
    textAdd("ab\\0cd");
+10:
    textAdd("tail");
''')
add('feature/msg06-embedded-nul', 'MSG_06', full='''
#pragma mapfile "map/any.msgm"
meta { table: { 0: {script: "main"} } }
script main {
    textSet(0, 0, "ab\\0cd");
}
''')

# (d) a mapfile that gives a built-in enum const another value: the diagnostic has to mention a
#     definition that has no location in any file
for fmt, magic in [('ANM_12', '!anmmap'), ('STD_12', '!stdmap'), ('MSG_12', '!msgmap'), ('ECL_08', '!eclmap')]:
    add('feature/%s-builtin-enum-const-redefined' % fmt.lower().replace('_', ''), fmt, mapfiles=[magic + '\n!enum(name="bool")\n5 true\n0 false\n'], main_body='')

# (e) every documented key of an ANM entry, including the rarely used secondary path (present and empty,
#     present and non-empty), in old-header games
for fmt in ['ANM_06', 'ANM_10']:
    for tag, p2 in [('empty', ''), ('named', 'subdir/second.png')]:
        add('feature/%s-path2-%s' % (fmt.lower().replace('_', ''), tag), fmt, full='''
#pragma mapfile "map/any.anmm"

entry {
    path: "subdir/file.png",
    path_2: "%s",
    has_data: false,
    img_width: 512,
    img_height: 512,
    img_format: 3,
    offset_x: 0,
    offset_y: 0,
    colorkey: 0xff00ff,
    memory_priority: 0,
    low_res_scale: false,
    sprites: {sprite0: {id: 0, x: 0.0, y: 0.0, w: 512.0, h: 480.0}},
}
script script0 {
    ins_1();
}
entry {
    path: "subdir/other.png",
    path_2: "%s",
    has_data: false,
    img_width: 128,
    img_height: 128,
    img_format: 5,
    offset_x: 0,
    offset_y: 0,
    colorkey: 0,
    memory_priority: 0,
    low_res_scale: false,
    sprites: {sprite1: {id: 1, x: 0.0, y: 0.0, w: 12.0, h: 48.0}},
}
script script1 {
    ins_1();
}
''' % (p2, p2))

# (f) a signature naming an enum that no mapfile declares, and calls that pass enum-const identifiers to it
#     (the mapfile arrives by -m here; C04 also runs every item with its mapfiles named by #pragma instead)
for fmt, magic in [('ANM_12', '!anmmap'), ('STD_12', '!stdmap'), ('ECL_08', '!eclmap'), ('MSG_12', '!msgmap')]:
    add('feature/%s-undeclared-enum-used' % fmt.lower().replace('_', ''), fmt, mapfiles=[magic + '\n!ins_signatures\n999 S(enum="Nope")\n998 S(enum="Nope")S\n'], main_body='''
    ins_999(true);
    ins_998(false, 3);
    ins_999(5);
''')

# (g) every statement position that carries an expression, with an ill-typed / odd expression in it,
#     and call syntaxes that exist in the grammar but are not implemented
ILL = ['1.5 + "a"', '"str"', '2.5', 'S', 'F0 + 1', '1 / 0', '-(2147483647 + 1)', 'I0', 'sin(1)', '(1 : 2 : 3 : 4)']
POS = [('rel-time', '+(%s):'), ('interrupt', 'interrupt[%s]:'), ('times', 'times(%s) { nop(); }'), ('if', 'if (%s) { nop(); }'),
       ('while', 'while (%s) { nop(); }'), ('arg', 'ins_23(%s, %s, %s);'), ('assign', 'I0 = %s;'), ('assign-f', 'F0 = %s;'),
       ('decl', 'int zz = %s;'), ('ternary', 'I0 = (%s) ? 1 : 2;'), ('unop', 'I0 = -(%s);'), ('cast', 'I0 = _S(%s);')]
for fmt in ['ECL_06', 'ANM_12']:
    for pname, tpl in POS:
        body = ''.join('    ' + (tpl % ((e,) * tpl.count('%s'))) + '\n' for e in [ILL[(sum(map(ord, pname)) + 3 * k) % len(ILL)] for k in range(3)])
        # one statement per item would be 240 items; three per item, each in its own sub/script so that
        # one error does not hide the others
        add('feature/%s-illtyped-%s' % (fmt.lower().replace('_', ''), pname), fmt, items='const string S = "x";\n', main_body=body)
    add('feature/%s-unimplemented-calls' % fmt.lower().replace('_', ''), fmt, main_body='''
    @foo(1, 2);
    foo(1) async;
    @bar() async 3;
    nop(@blob="00000000");
''')
    add('feature/%s-label-arg-out-of-range' % fmt.lower().replace('_', ''), fmt, mapfiles=[('!eclmap' if fmt.startswith('ECL') else '!anmmap') + '\n!ins_signatures\n700 s\n701 b\n'], main_body='''
    ins_700(timeof(far));
    ins_701(offsetof(far));
+30000:
    nop();
+30000:
    nop();
far:
    nop();
''')

# (h) counts at their limits: the most timelines a game accepts (TH06: 16 slots, TH07+: 15), many subs
for fmt, n in [('ECL_06', 16), ('ECL_07', 15), ('ECL_08', 15), ('ECL_07', 14), ('ECL_08', 1)]:
    tl = ''.join('script timeline%d {\n    +%d: ins_%d(%s);\n}\n' % (k, 10 * (k + 1), 0 if fmt == 'ECL_06' else 0, '0, 1, 2' if False else '') for k in range(0))
    full = '#pragma mapfile "map/any.eclm"\n\n' + ''.join('script timeline%d {\n}\n' % k for k in range(n)) + ''.join('void sub%d() {\n    nop();\n}\n' % k for k in range(3))
    add('feature/%s-%d-timelines' % (fmt.lower().replace('_', ''), n), fmt, full=full)
# (i) difficulty switches nested in difficulty switches, shorter / longer than the parent, in every case position
for k, e in enumerate(['(1:2:(5:6):8)', '(1:2:3:(5:6))', '((1:2):3:4:5)', '(1:(2:3:4:5:6):7:8)', '((1:2:3:4):(5:6:7:8):9:10)', '(1::(2:3)::)']):
    add('feature/ecl06-nested-diff-switch-%d' % k, 'ECL_06', main_body='    I0 = %s;\n    ins_4(I1, %s);\n' % (e, e))
# (j) MSG script tables with several entries tied for most-repeated (the `default` entry is a choice)
add('competition/msg-table-ties', 'MSG_06', full='''
#pragma mapfile "map/any.msgm"
meta {
    table: {
        0: {script: "a"}, 1: {script: "a"}, 2: {script: "b"}, 3: {script: "b"}, 4: {script: "c"}, 5: {script: "c"}, 7: {script: "a"}, 8: {script: "b"},
    }
}
script a { textSet(0, 0, "a"); }
script b { textSet(0, 0, "b"); }
script c { textSet(0, 0, "c"); }
''')
add('competition/msg-table-ties-th12', 'MSG_12', full='''
#pragma mapfile "map/any.msgm"
meta {
    table: {
        0: {script: "a", flags: 256}, 1: {script: "a", flags: 256}, 2: {script: "b", flags: 256}, 3: {script: "b", flags: 256}, 4: {script: "a", flags: 0}, 5: {script: "a", flags: 0},
    }
}
script a { textAdd("a"); }
script b { textAdd("b"); }
''')
# (k) metadata blocks with several unrecognised keys (which one is reported is a choice)
add('competition/anm-meta-unknown-keys', 'ANM_12', full='''
#pragma mapfile "map/any.anmm"
entry {
    path: "subdir/file.png", has_data: false, img_width: 512, img_height: 512, img_format: 3,
    zeta_key: 1, alpha_key: 2, mu_key: 3, beta_key: 4,
    offset_x: 0, offset_y: 0, colorkey: 0, memory_priority: 0, low_res_scale: false,
    sprites: {sprite0: {id: 0, x: 0.0, y: 0.0, w: 512.0, h: 480.0, qq: 1, aa: 2, zz: 3}},
}
script script0 { ins_1(); }
''')
add('competition/msg-meta-unknown-keys', 'MSG_06', full='''
#pragma mapfile "map/any.msgm"
meta {
    tabel_len: 3,
    table: { 0: {script: "a", flagz: 1, skript: 2, aaa: 3} },
    defualt: 1,
    zzz: 2,
}
script a { textSet(0, 0, "a"); }
''')
add('competition/std-meta-unknown-keys', 'STD_12', full='''
#pragma mapfile "map/any.stdm"
meta {
    unknown: 0, anm_path: "stage01.anm", wrong_one: 1, another_wrong: 2, third: 3,
    objects: { thing: { layer: 4, pos: [10.0, 20.0, 30.0], size: [10.0, 20.0, 30.0], quads: [], bogus_b: 1, bogus_a: 2 } },
    instances: [],
}
script main { }
''')
# (l) user mapfiles that redefine the signature of an opcode the game's builtin map already knows
for fmt, magic, op, call in [('ANM_12', '!anmmap', 51, 'ins_51(-1);'), ('MSG_09', '!msgmap', 4, 'ins_4(-1);'), ('ECL_06', '!eclmap', 0, 'ins_0(-1);'), ('STD_12', '!stdmap', 7, 'ins_7(-1);')]:
    add('feature/%s-builtin-signature-redefined' % fmt.lower().replace('_', ''), fmt, mapfiles=['%s\n!ins_signatures\n%d s--\n' % (magic, op)], main_body='    %s\n+10:\n    %s\n' % (call, call.replace('-1', '300')))

# (m) instructions with as many arguments as the parameter mask has bits, one fewer, one more
for fmt, magic in [('ANM_12', '!anmmap'), ('ECL_08', '!eclmap')]:
    add('feature/%s-15-16-17-arguments' % fmt.lower().replace('_', ''), fmt, mapfiles=['%s\n!ins_signatures\n2015 %s\n2016 %s\n2017 %s\n2033 %s\n' % (magic, 'S' * 15, 'S' * 16, 'S' * 17, 'S' * 33)], main_body=''.join('    ins_%d(%s);\n' % (2000 + n, ', '.join(str(i + 1) for i in range(n))) for n in (15, 16, 17, 33)) + '    ins_2016(I0, 2, 3, 4, 5, 6, 7, 8, 9, 10, 11, 12, 13, 14, 15, I1);\n')
# (n) stack ECL: difficulty switches over strings of different padded length, ints and floats
add('feature/ecl10-diff-switch-strings', 'ECL_10', mapfiles=['!eclmap\n!ins_signatures\n342 SSSp(bs=4)\n343 Sf\n344 p(bs=4)S\n'], main_body='''
    ins_342(0, 60, 500000, "Easy" : "Normal sign" : "Hard sign, a longer one" : "L");
lbl:
    ins_343(1 : 2 : 3 : 4, 1.0 : 2.0 : 3.0 : 4.5);
    ins_344("a" : "ab" : "abc" : "abcde", 7);
lbl2:
    ins_343(5, 1.5);
''')

# (o) an entry whose path marks it as a render target ('@...') but which asks for image data
add('feature/anm12-render-target-with-data', 'ANM_12', full='''
#pragma mapfile "map/any.anmm"
entry {
    path: "@R",
    has_data: "dummy",
    img_width: 4,
    img_height: 4,
    img_format: 1,
    offset_x: 0, offset_y: 0, colorkey: 0, memory_priority: 0, low_res_scale: false,
    sprites: {sprite0: {id: 0, x: 0.0, y: 0.0, w: 4.0, h: 4.0}},
}
script script0 { ins_1(); }
''')

# (p) float arguments that are NaNs with payloads, and infinities, given as raw blobs
add('feature/anm12-nan-payloads', 'ANM_12', main_body='''
    ins_7(@blob="0100807f 0000c0ff");
    ins_7(@blob="0000807f 000080ff");
''')
# (q) a TH06 timeline instruction that looks like the end-of-timeline marker (time -1, arg0 4) but is not the last
add('feature/ecl06-timeline-instr-like-end-marker', 'ECL_06', full='''
#pragma mapfile "map/any.eclm"
script timeline0 {
    ins_10(0, 1);
-1:
    ins_10(@arg0=4, 2, 3);
0:
    ins_10(0, 5);
}
void sub0() {}
''')

# --- seeded generated programs (tools/gen_programs.py): ids gen/<profile>-<k>, tag 'gen'
import gen_programs
for g in gen_programs.generate():
    f = fmts[g['fmt']]
    items.append({
        'kind': 'source', 'id': g['id'], 'format': g['fmt'], 'cmd': f['cmd'], 'game': f['game'],
        'mapfiles': [g['mapfile']], 'compile_mapfiles': [], 'decompile_mapfiles': [],
        'compile_args': [], 'decompile_args': [],
        'source': src(g['fmt'], main_body=g['main_body'], items=g['items'], full=g['full']), 'files': {}, 'tags': ['gen'],
    })

json.dump({'items': items}, open(os.path.join(ROOT, 'extra.json'), 'w'), indent=1, ensure_ascii=False)
print(len(items), 'extra items')
