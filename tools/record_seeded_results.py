#!/usr/bin/env python3
"""Read logs written by tools/eval_seeded.sh and record, per seeded change, which check raised which
violation classes: seeded/<id>/meta.json gets "evaluated": [{"check":..., "exit":..., "classes":[...]}].
Usage: record_seeded_results.py LOG..."""
import json, re, sys, os, collections
root = os.path.join(os.path.dirname(os.path.abspath(__file__)), '..', 'seeded')
res = collections.OrderedDict()
for log in sys.argv[1:]:
    cur = None
    for line in open(log, errors='replace'):
        m = re.match(r'=== (\S+) vs (\S+): exit (\d+)', line)
        if m:
            cur = (m.group(1), m.group(2)); res[cur] = {'check': m.group(2), 'exit': int(m.group(3)), 'classes': []}
            continue
        m = re.match(r'  class: (.*)', line)
        if m and cur:
            c = m.group(1).strip()
            if c not in res[cur]['classes']: res[cur]['classes'].append(c)
        m = re.match(r'  scenario: (.*)', line)
        if m and cur and 'scenario' not in res[cur]:
            res[cur]['scenario'] = m.group(1).strip()[:160]
for (sid, chk), r in res.items():
    p = os.path.join(root, sid, 'meta.json')
    if not os.path.exists(p): continue
    d = json.load(open(p))
    ev = [e for e in d.get('evaluated', []) if e.get('check') != chk]
    ev.append(r); d['evaluated'] = ev
    json.dump(d, open(p, 'w'), indent=1, ensure_ascii=False)
    print(sid, chk, 'CAUGHT' if r['exit'] == 1 else ('exit %d' % r['exit']), '; '.join(r['classes'])[:200])
