#!/bin/sh
# placeholder; replaced when the framework is built
exit 0
