#!/bin/sh
# MANIFEST.setup_cmd: build shim + driver + first build of truth-core (offline, from files on disk only)
set -e
cd "$(dirname "$0")"
./check build-only
