//! The simulation engine: context, worker pool, pipeline execution, the oracles (by name), and
//! statistics.  `eval_case` is the single judgement function: checks, replay and the minimiser
//! all go through it, so a replayed case is judged exactly as it was when found.

use crate::case::{materialise, Case, CorruptOp, Input, Step};
use crate::corpus::Corpus;
use crate::oracle::*;
use crate::rng;
use crate::sandbox::{Config, Outcome, Sandbox};
use std::collections::{BTreeMap, BTreeSet, HashMap, HashSet};
use std::path::PathBuf;
use std::sync::atomic::{AtomicUsize, Ordering};
use std::sync::{Arc, Mutex};

#[derive(Clone, Copy, PartialEq, Debug)]
pub enum Tier {
    Quick,
    Thorough,
}

pub struct Ctx {
    pub cfg: Config,
    pub corpus: Corpus,
    pub tier: Tier,
    pub seed: u64,
    pub jobs: usize,
    pub base_dir: PathBuf,
    pub verif: PathBuf,
}

#[derive(Default, Clone)]
pub struct Stats {
    pub runs: u64,
    pub cases: u64,
    pub events: u64,
    pub cpu_ms: u64,
    /// fault kind -> number of runs in which it actually fired (from the shim's log)
    pub fired: BTreeMap<String, u64>,
    /// distinct I/O traces (hash of the event log)
    pub traces: HashSet<u64>,
    /// distinct non-trivial case fingerprints
    pub nontrivial: HashSet<u64>,
    /// reach probes and skip counters
    pub probes: BTreeMap<String, u64>,
    /// determinism self-check: (re-executed, mismatched)
    pub recheck: (u64, u64),
}

impl Stats {
    pub fn probe(&mut self, name: &str) {
        *self.probes.entry(name.to_string()).or_insert(0) += 1;
    }
    pub fn probe_n(&mut self, name: &str, n: u64) {
        *self.probes.entry(name.to_string()).or_insert(0) += n;
    }
    pub fn merge(&mut self, o: Stats) {
        self.runs += o.runs;
        self.cases += o.cases;
        self.events += o.events;
        self.cpu_ms += o.cpu_ms;
        for (k, v) in o.fired {
            *self.fired.entry(k).or_insert(0) += v;
        }
        self.traces.extend(o.traces);
        self.nontrivial.extend(o.nontrivial);
        for (k, v) in o.probes {
            *self.probes.entry(k).or_insert(0) += v;
        }
        self.recheck.0 += o.recheck.0;
        self.recheck.1 += o.recheck.1;
    }
    pub fn note_run(&mut self, o: &Outcome) {
        self.runs += 1;
        self.events += o.events.iter().filter(|e| e.seq >= 0).count() as u64;
        self.traces.insert(o.trace_hash);
        if o.events.iter().any(|e| e.op == "getrandom" && e.req == 16) {
            self.probe("getrandom-served");
        }
        let mut kinds: BTreeSet<String> = BTreeSet::new();
        for e in &o.events {
            if !e.injected || e.op == "getrandom" {
                continue;
            }
            let k = if e.ret < 0 {
                format!("{}:{}", e.op, errno_name(e.errno))
            } else if e.ret == 0 && e.op == "write" {
                "write:zero".to_string()
            } else if e.ret == 0 && e.op == "read" {
                "read:eof".to_string()
            } else {
                format!("{}:short", e.op)
            };
            kinds.insert(k);
        }
        for k in kinds {
            *self.fired.entry(k).or_insert(0) += 1;
        }
    }
}

pub fn errno_name(e: i32) -> &'static str {
    match e {
        libc::EIO => "EIO",
        libc::ENOSPC => "ENOSPC",
        libc::EACCES => "EACCES",
        libc::ENOENT => "ENOENT",
        libc::EISDIR => "EISDIR",
        libc::EMFILE => "EMFILE",
        libc::ESPIPE => "ESPIPE",
        libc::EINTR => "EINTR",
        libc::EROFS => "EROFS",
        libc::EDQUOT => "EDQUOT",
        libc::ENOTDIR => "ENOTDIR",
        libc::EEXIST => "EEXIST",
        libc::EFBIG => "EFBIG",
        libc::ENOMEM => "ENOMEM",
        libc::ELOOP => "ELOOP",
        libc::ENAMETOOLONG => "ENAMETOOLONG",
        _ => "E?",
    }
}

/// A found violation together with the case that exhibits it.
#[derive(Clone)]
pub struct Finding {
    pub case: Case,
    pub violation: Violation,
}

static STOP_JUDGING: std::sync::atomic::AtomicBool = std::sync::atomic::AtomicBool::new(false);
static FINDING_WEIGHT: AtomicUsize = AtomicUsize::new(0);

pub fn stopped_early() -> bool {
    STOP_JUDGING.load(Ordering::Relaxed)
}

pub struct Worker<'a> {
    pub ctx: &'a Ctx,
    pub sb: Sandbox,
    pub stats: Stats,
    pub findings: Vec<Finding>,
    golden: Vec<(u64, Arc<Vec<Outcome>>)>,
    pub harness_errors: Vec<String>,
}

/// Run `f` over `items` on `ctx.jobs` worker threads; results are returned in item order, so
/// nothing observable depends on which worker took which item.
pub fn par_map<T: Sync, R: Send>(ctx: &Ctx, items: &[T], f: impl Fn(&mut Worker, usize, &T) -> R + Sync) -> (Vec<R>, Stats, Vec<Finding>, Vec<String>) {
    let next = AtomicUsize::new(0);
    let results: Mutex<Vec<Option<R>>> = Mutex::new((0..items.len()).map(|_| None).collect());
    let agg: Mutex<(Stats, Vec<(usize, Finding)>, Vec<String>)> = Mutex::new((Stats::default(), vec![], vec![]));
    let jobs = ctx.jobs.max(1).min(items.len().max(1));
    std::thread::scope(|s| {
        for w in 0..jobs {
            let next = &next;
            let results = &results;
            let agg = &agg;
            let f = &f;
            s.spawn(move || {
                let mut worker = Worker { ctx, sb: Sandbox::new(&ctx.base_dir, w), stats: Stats::default(), findings: vec![], golden: vec![], harness_errors: vec![] };
                let mut found: Vec<(usize, Finding)> = vec![];
                loop {
                    let i = next.fetch_add(1, Ordering::SeqCst);
                    if i >= items.len() {
                        break;
                    }
                    if items.len() >= 200 && i % (items.len() / 10).max(1) == 0 {
                        eprintln!("[progress] item {}/{}", i, items.len());
                    }
                    let r = f(&mut worker, i, &items[i]);
                    for fd in worker.findings.drain(..) {
                        found.push((i, fd));
                    }
                    results.lock().unwrap()[i] = Some(r);
                }
                let mut a = agg.lock().unwrap();
                a.0.merge(std::mem::take(&mut worker.stats));
                a.1.extend(found);
                a.2.extend(worker.harness_errors.drain(..));
            });
        }
    });
    let (stats, mut found, herr) = agg.into_inner().unwrap();
    found.sort_by_key(|(i, _)| *i);
    (results.into_inner().unwrap().into_iter().map(|r| r.unwrap()).collect(), stats, found.into_iter().map(|(_, f)| f).collect(), herr)
}

fn golden_key(case: &Case) -> u64 {
    let mut c = case.clone();
    for s in &mut c.steps {
        s.plan.clear();
    }
    c.meta = serde_json::Value::Null;
    c.oracle.clear();
    c.name.clear();
    c.property.clear();
    rng::hash_bytes(serde_json::to_string(&c).unwrap().as_bytes())
}

pub fn plan_is_benign(plan: &str) -> bool {
    plan.split(';').filter(|r| !r.is_empty()).all(|r| r.starts_with("eintr=") || r.starts_with("chunk=") || r.starts_with("rchunk=") || r.starts_with("wchunk=") || r.contains(":short="))
}

fn cmd_kind(step: &Step) -> String {
    let a = &step.argv;
    let mut k = a.get(0).cloned().unwrap_or_default();
    if let Some(s) = a.get(1) {
        if !s.starts_with('-') {
            k = format!("{}-{}", k, s);
        }
    }
    if a.iter().any(|x| x == "--mission") {
        k.push_str("-mission");
    }
    if a.iter().any(|x| x == "--ending") {
        k.push_str("-ending");
    }
    k
}

/// role of an output file for class names (keeps classes stable across scenarios)
fn file_role(path: &str) -> String {
    if path == "(stdout)" {
        return path.into();
    }
    let ext = path.rsplit('.').next().unwrap_or("");
    match ext {
        "json" => "debuginfo".into(),
        "png" => "png".into(),
        "txt" | "spec" | "ecl_txt" => "text".into(),
        "h" | "defs" => "thecl-defs".into(),
        _ => "binary".into(),
    }
}

impl<'a> Worker<'a> {
    /// Execute the steps of `case` from step `from` in the current sandbox; stops after the first
    /// step that does not exit 0.
    fn run_steps(&mut self, steps: &[Step]) -> Vec<Outcome> {
        let mut outs = vec![];
        for st in steps {
            let o = self.sb.run(&self.ctx.cfg, st);
            self.stats.note_run(&o);
            let ok = o.ok();
            outs.push(o);
            if !ok {
                break;
            }
        }
        outs
    }

    pub fn run_pipeline(&mut self, case: &Case) -> Vec<Outcome> {
        let files = materialise(&case.inputs, &self.ctx.corpus);
        self.sb.reset(&files);
        self.run_steps(&case.steps)
    }

    /// Fault-free reference execution of a case (plans cleared), cached per worker.
    pub fn golden(&mut self, case: &Case) -> Arc<Vec<Outcome>> {
        let k = golden_key(case);
        if let Some((_, g)) = self.golden.iter().find(|(kk, _)| *kk == k) {
            return g.clone();
        }
        let mut c = case.clone();
        for s in &mut c.steps {
            s.plan.clear();
        }
        let outs = Arc::new(self.run_pipeline(&c));
        if self.golden.len() >= 6 {
            self.golden.remove(0);
        }
        self.golden.push((k, outs.clone()));
        outs
    }

    /// Run only step `k` of `case` with the sandbox prepared as the golden run left it before step k.
    pub fn run_step_after_golden(&mut self, case: &Case, golden: &[Outcome], k: usize) -> Outcome {
        let mut files: BTreeMap<String, Arc<Vec<u8>>> = materialise(&case.inputs, &self.ctx.corpus).into_iter().collect();
        for (i, g) in golden.iter().enumerate().take(k) {
            for (p, d) in &g.files {
                files.insert(p.clone(), Arc::new(d.clone()));
            }
        }
        let files: Vec<_> = files.into_iter().collect();
        self.sb.reset(&files);
        let o = self.sb.run(&self.ctx.cfg, &case.steps[k]);
        self.stats.note_run(&o);
        o
    }

    /// Judge one case.  Returns the violations (also recorded in self.findings by `judge`).
    pub fn eval_case(&mut self, case: &Case) -> Vec<Violation> {
        self.stats.cases += 1;
        match case.oracle.as_str() {
            "term" => self.oracle_term(case),
            "seed" => self.oracle_seed(case),
            "failstop" => self.oracle_failstop(case),
            "stale" => self.oracle_stale(case),
            "roundtrip" => crate::checks::c01::oracle_roundtrip(self, case),
            "debuginfo" => crate::checks::c18::oracle_debuginfo(self, case),
            "extract-roundtrip" => crate::checks::c17::oracle_extract_roundtrip(self, case),
            "multisource" => crate::checks::c17::oracle_multisource(self, case),
            "readback" => crate::checks::c03::oracle_readback(self, case),
            "fieldwise" => crate::checks::fields::oracle_fieldwise(self, case),
            other => {
                self.harness_errors.push(format!("unknown oracle {}", other));
                vec![]
            }
        }
    }

    /// eval + record findings
    pub fn judge(&mut self, case: &Case) -> usize {
        // a badly broken tree (every run hangs, every case fails) must not keep the check busy for
        // hours: once enough findings have piled up (a hang weighs 25: it costs 10-70 s of CPU), the
        // remaining cases are skipped -- the check is going to report VIOLATION either way
        if STOP_JUDGING.load(Ordering::Relaxed) {
            self.stats.probe("skipped:too-many-findings-already");
            return 0;
        }
        let v = self.eval_case(case);
        let n = v.len();
        let mut weight = 0;
        for violation in v {
            weight += if violation.class.starts_with("signal:hang") { 25 } else { 1 };
            self.findings.push(Finding { case: case.clone(), violation });
        }
        if weight > 0 {
            let limit: usize = std::env::var("TRUSIM_MAX_FINDINGS").ok().and_then(|x| x.parse().ok()).unwrap_or(400);
            if FINDING_WEIGHT.fetch_add(weight, Ordering::Relaxed) + weight > limit {
                STOP_JUDGING.store(true, Ordering::Relaxed);
            }
        }
        n
    }

    // ------------------------------------------------------------------ O-term / O-diag / O-names

    /// Every step of the pipeline terminates properly; failure <=> error diagnostic;
    /// with meta.names = [..]: a failing step names its input file in some error line.
    /// With a fault plan on a step, O-failstop is applied in addition (success => same outputs as golden).
    fn oracle_term(&mut self, case: &Case) -> Vec<Violation> {
        let mut v = vec![];
        let outs = self.run_pipeline(case);
        let names: Vec<String> = case.meta.get("names").and_then(|n| n.as_array()).map(|a| a.iter().filter_map(|x| x.as_str().map(String::from)).collect()).unwrap_or_default();
        let mut nontrivial = false;
        // the files as the commands saw them: initial sandbox content + outputs of earlier steps
        let mut seen_files: BTreeMap<String, Vec<u8>> = materialise(&case.inputs, &self.ctx.corpus).into_iter().filter(|(_, d)| !d.starts_with(crate::case::SYMLINK_MARKER)).map(|(p, d)| (p, d.as_ref().clone())).collect();
        // a symbolic link in the initial state shows the content of its target
        for (p, d) in materialise(&case.inputs, &self.ctx.corpus) {
            if let Some(target) = d.strip_prefix(crate::case::SYMLINK_MARKER) {
                let target = String::from_utf8_lossy(target).into_owned();
                let dir = p.rsplit_once('/').map(|(d, _)| d.to_string()).unwrap_or_default();
                let mut parts: Vec<&str> = if target.starts_with('/') { vec![] } else { dir.split('/').filter(|x| !x.is_empty()).collect() };
                for seg in target.split('/') {
                    match seg {
                        "" | "." => {}
                        ".." => {
                            parts.pop();
                        }
                        x => parts.push(x),
                    }
                }
                if let Some(content) = seen_files.get(&parts.join("/")).cloned() {
                    seen_files.insert(p.clone(), content);
                }
            }
        }
        for (i, o) in outs.iter().enumerate() {
            v.extend(term_violations(&self.ctx.cfg, o));
            v.extend(diag_violations(o));
            v.extend(location_violations(o, &seen_files));
            for (p, d) in &o.files {
                seen_files.insert(p.clone(), d.clone());
            }
            if o.exit == Some(1) {
                nontrivial = true;
                if let Some(name) = names.get(i) {
                    if !name.is_empty() {
                        let d = diagnostics(&o.stderr);
                        let se = o.stderr_str();
                        if has_error(&d) && !se.contains(name.as_str()) {
                            v.push(Violation { class: "diag:unnamed-file".into(), detail: short(&o.stderr, 400) });
                        }
                    }
                }
            }
            if o.events.iter().any(|e| e.injected && e.op != "getrandom") {
                nontrivial = true;
            }
        }
        let corrupted = case.inputs.iter().any(|i| !i.corrupt.is_empty());
        if corrupted || nontrivial {
            self.stats.nontrivial.insert(golden_key(case) ^ rng::hash_bytes(serde_json::to_string(&case.steps).unwrap().as_bytes()));
        }
        // read-side faults: success must mean the same outputs as the fault-free run
        if case.steps.iter().any(|s| !s.plan.is_empty()) && outs.iter().all(|o| o.ok()) {
            let g = self.golden(case);
            for (i, o) in outs.iter().enumerate() {
                if case.steps[i].plan.is_empty() {
                    continue;
                }
                if only_meta_faults(o) {
                    self.stats.probe("metadata-fault:tolerated-or-failed(not compared)");
                    continue;
                }
                if let Some(go) = g.get(i) {
                    if let Some(d) = success_differs(go, o) {
                        v.push(Violation { class: format!("failstop:exit0-differs:{}:{}", cmd_kind(&case.steps[i]), file_role(&d)), detail: format!("plan={} differs in {}", case.steps[i].plan, d) });
                    }
                }
            }
        }
        v
    }

    // ------------------------------------------------------------------ O-seed

    /// The whole pipeline, run under each hash key of meta.keys, has identical observable tuples.
    fn oracle_seed(&mut self, case: &Case) -> Vec<Violation> {
        let keys: Vec<u64> = case.meta.get("keys").and_then(|k| k.as_array()).map(|a| a.iter().filter_map(|x| x.as_u64()).collect()).unwrap_or_default();
        let mut reference: Option<(u64, Vec<Tuple>)> = None;
        let mut v = vec![];
        for &key in &keys {
            let mut c = case.clone();
            for s in &mut c.steps {
                s.key = key;
            }
            let outs = self.run_pipeline(&c);
            let tuples: Vec<Tuple> = outs.iter().map(Tuple::of).collect();
            match &reference {
                None => reference = Some((key, tuples)),
                Some((k0, r)) => {
                    let mut diff = None;
                    if r.len() != tuples.len() {
                        diff = Some((r.len().min(tuples.len()).saturating_sub(1), "exit".to_string()));
                    } else {
                        for (i, (a, b)) in r.iter().zip(tuples.iter()).enumerate() {
                            if let Some(d) = a.first_diff(b) {
                                diff = Some((i, d));
                                break;
                            }
                        }
                    }
                    if let Some((i, d)) = diff {
                        let d = match d.split_once(':') {
                            Some(("file", p)) | Some(("file-missing", p)) | Some(("file-extra", p)) => format!("file:{}", file_role(p)),
                            _ => d,
                        };
                        v.push(Violation { class: format!("seed:differs:{}:{}", cmd_kind(&case.steps[i]), d), detail: format!("keys {} vs {} at step {}", k0, key, i) });
                        break;
                    }
                }
            }
        }
        if keys.len() >= 2 {
            self.stats.nontrivial.insert(golden_key(case));
        }
        v
    }

    // ------------------------------------------------------------------ pre-existing outputs

    /// Initial-state variation: the sandbox already holds (stale, usually longer) files at the paths
    /// the command writes to.  meta.stale = [input paths that are the stale files].  The reference is
    /// the same pipeline started without them; every step that exits 0 must produce the same outputs.
    fn oracle_stale(&mut self, case: &Case) -> Vec<Violation> {
        let stale: Vec<String> = case.meta.get("stale").and_then(|k| k.as_array()).map(|a| a.iter().filter_map(|x| x.as_str().map(String::from)).collect()).unwrap_or_default();
        let mut fresh = case.clone();
        fresh.inputs.retain(|i| !stale.contains(&i.path));
        if case.meta.get("ignore_env").and_then(|b| b.as_bool()).unwrap_or(false) {
            for s in &mut fresh.steps {
                s.env.clear();
            }
        }
        // meta.reference_steps: the reference pipeline uses these argv lists instead (same outputs expected)
        if let Some(rs) = case.meta.get("reference_steps").and_then(|x| x.as_array()) {
            for (k, a) in rs.iter().enumerate() {
                if let (Some(st), Some(argv)) = (fresh.steps.get_mut(k), a.as_array()) {
                    st.argv = argv.iter().filter_map(|x| x.as_str().map(String::from)).collect();
                }
            }
        }
        if case.meta.get("reference_no_stdout_redirect").and_then(|b| b.as_bool()).unwrap_or(false) {
            for s in &mut fresh.steps {
                s.stdout_to = None;
            }
        }
        if let Some(ri) = case.meta.get("reference_source").and_then(|x| x.as_str()) {
            for i in fresh.inputs.iter_mut() {
                if i.path == crate::scen::SRC {
                    i.base = crate::case::Base::Text(ri.to_string());
                }
            }
        }
        let g = self.golden(&fresh);
        let outs = self.run_pipeline(case);
        let mut v = vec![];
        self.stats.nontrivial.insert(golden_key(case));
        // meta.compare_stderr: the diagnostics themselves (exit status, text, locations) must be those
        // of the reference run, whether or not the step succeeds; "<SANDBOX>/" prefixes are dropped
        // because a path reached through a gamemap is shown canonicalised
        if case.meta.get("compare_stderr").and_then(|b| b.as_bool()).unwrap_or(false) {
            let norm = |o: &Outcome| o.stderr_str().replace("<SANDBOX>/", "");
            for (i, (go, o)) in g.iter().zip(outs.iter()).enumerate() {
                if go.exit != o.exit || norm(go) != norm(o) {
                    let tagv = case.meta.get("variant").and_then(|x| x.as_str()).unwrap_or("same-diagnostics").to_string();
                    v.push(Violation { class: format!("{}:diagnostics-differ:{}", tagv, cmd_kind(&case.steps[i])), detail: format!("reference run (exit {:?}):\n{}\nthis run (exit {:?}):\n{}", go.exit, short(&go.stderr, 500), o.exit, short(&o.stderr, 500)) });
                    return v;
                }
            }
            self.stats.probe("same-diagnostics-as-reference");
            return v;
        }
        let tag = case.meta.get("variant").and_then(|x| x.as_str()).unwrap_or("stale-output").to_string();
        let strict = tag != "stale-output";
        for (i, (go, o)) in g.iter().zip(outs.iter()).enumerate() {
            if !o.ok() {
                // (for the equivalence variants a command that fails where the reference succeeds differs too)
                if strict && go.ok() {
                    v.push(Violation { class: format!("{}:fails-where-reference-succeeds:{}", tag, cmd_kind(&case.steps[i])), detail: short(&o.stderr, 300) });
                }
                break;
            }
            if let Some(d) = success_differs(go, o) {
                v.push(Violation { class: format!("{}:exit0-differs:{}:{}", tag, cmd_kind(&case.steps[i]), file_role(&d)), detail: format!("{} {:?}: output {} differs from the reference run's", tag, stale, d) });
                break;
            }
        }
        if v.is_empty() {
            self.stats.probe("stale-output:same-as-fresh");
        }
        v
    }

    // ------------------------------------------------------------------ O-failstop / O-benign

    /// meta.step = index of the faulted step (its plan is in the case).  The golden run is the same
    /// pipeline with all plans cleared.  Violation iff the faulted step exits 0 and its outputs
    /// (files, stdout) differ from the golden step's.
    fn oracle_failstop(&mut self, case: &Case) -> Vec<Violation> {
        let k = case.meta.get("step").and_then(|s| s.as_u64()).unwrap_or(0) as usize;
        let g = self.golden(case);
        if g.len() <= k {
            self.stats.probe("skip:golden-stopped-before-fault-step");
            return vec![];
        }
        let o = self.run_step_after_golden(case, &g, k);
        let fired = o.events.iter().any(|e| e.injected && e.op != "getrandom");
        let mut v = vec![];
        if fired {
            self.stats.nontrivial.insert(golden_key(case) ^ rng::hash_bytes(case.steps[k].plan.as_bytes()));
        } else {
            self.stats.probe("fault-did-not-fire");
            // nothing was injected: the run must be the golden run again (determinism self-check)
            self.stats.recheck.0 += 1;
            if Tuple::of(&o) != Tuple::of(&g[k]) {
                // once more, before believing it
                let o2 = self.run_step_after_golden(case, &g, k);
                if Tuple::of(&o2) == Tuple::of(&g[k]) {
                    self.stats.probe(&format!("recheck:transient-mismatch(exit={:?},signal={:?})", o.exit, o.signal));
                    return v;
                }
                self.stats.recheck.1 += 1;
                let d = Tuple::of(&g[k]).first_diff(&Tuple::of(&o));
                self.harness_errors.push(format!("nondeterministic replay of golden step: {} plan={} exit={:?} events={} golden_events={} first_diff={:?} stderr={}", case.name, case.steps[k].plan, o.exit, o.events.len(), g[k].events.len(), d, short(&o.stderr, 200)));
            }
            return v;
        }
        if case.meta.get("also_term").and_then(|b| b.as_bool()).unwrap_or(false) {
            v.extend(term_violations(&self.ctx.cfg, &o));
            v.extend(diag_violations(&o));
        }
        if o.ok() && only_meta_faults(&o) {
            self.stats.probe("metadata-fault:tolerated(not compared)");
        } else if o.ok() {
            // meta.ignore_outputs: files that are a progress channel rather than a product of the
            // command (extract's "exported ..." lines on a redirected stdout)
            let ignore: Vec<String> = case.meta.get("ignore_outputs").and_then(|x| x.as_array()).map(|a| a.iter().filter_map(|x| x.as_str().map(String::from)).collect()).unwrap_or_default();
            let (gk, ok_) = if ignore.is_empty() {
                (g[k].clone(), o.clone())
            } else {
                let strip = |x: &Outcome| {
                    let mut y = x.clone();
                    y.files.retain(|p, _| !ignore.contains(p));
                    y
                };
                (strip(&g[k]), strip(&o))
            };
            if let Some(d) = success_differs(&gk, &ok_) {
                let benign = plan_is_benign(&case.steps[k].plan);
                v.push(Violation {
                    class: format!("{}:exit0-differs:{}:{}", if benign { "benign" } else { "failstop" }, cmd_kind(&case.steps[k]), file_role(&d)),
                    detail: format!("plan={} golden_exit={:?} differs in {}; stderr={}", case.steps[k].plan, g[k].exit, d, short(&o.stderr, 200)),
                });
            } else {
                self.stats.probe("fault-tolerated(same outputs)");
            }
        } else {
            self.stats.probe("fault-failed-loudly");
        }
        // reach probes
        let last_write_seq = g[k].events.iter().filter(|e| e.op == "write").map(|e| e.seq).max();
        if let Some(lw) = last_write_seq {
            if o.events.iter().any(|e| e.injected && e.op == "write" && e.seq == lw) {
                self.stats.probe("fault-on-last-write-of-run");
            }
        }
        v
    }
}

pub fn is_meta_op(op: &str) -> bool {
    matches!(op, "stat" | "lstat" | "fstat" | "realpath" | "readlink" | "getcwd")
}

/// true iff something was injected and every injected event is a metadata call
pub fn only_meta_faults(o: &Outcome) -> bool {
    let mut any = false;
    for e in o.events.iter().filter(|e| e.injected && e.op != "getrandom") {
        any = true;
        // a premature EOF is the same thing as a shorter file: what the command then makes of the
        // shorter file is judged by O-term / O-diag (as for storage truncation), not compared
        let early_eof = e.op == "read" && e.ret == 0;
        // a stat that succeeds but reports another size is no reason for different output: compared
        let size_lie = is_meta_op(&e.op) && e.ret == 0;
        if (!is_meta_op(&e.op) && !early_eof) || size_lie {
            return false;
        }
    }
    any
}

/// If the run exited 0: name of the first output (file or stdout) that differs from golden, if any.
/// A golden that itself failed has no outputs, so any success then "differs".
pub fn success_differs(golden: &Outcome, o: &Outcome) -> Option<String> {
    if !golden.ok() {
        return Some("(golden-failed)".into());
    }
    if golden.stdout != o.stdout {
        return Some("(stdout)".into());
    }
    for (p, d) in &golden.files {
        match o.files.get(p) {
            Some(x) if x == d => {}
            _ => return Some(p.clone()),
        }
    }
    for p in o.files.keys() {
        if !golden.files.contains_key(p) {
            return Some(p.clone());
        }
    }
    None
}

/// Initial-state variation "interrupted earlier run": every output the pipeline writes already exists
/// and holds a proper prefix of what is about to be written (or nothing at all when `empty`).
/// Judged by the "stale" oracle (reference = the same pipeline in a directory without them).
pub fn prefix_stale_case(w: &mut Worker, base: &Case, empty: bool) -> Option<Case> {
    let g = w.golden(base);
    if g.is_empty() || !g.iter().all(|o| o.ok()) {
        return None;
    }
    let mut c = base.clone();
    let mut stale = vec![];
    for o in g.iter() {
        for (p, d) in &o.files {
            if d.len() < 2 || c.inputs.iter().any(|i| &i.path == p) {
                continue;
            }
            let cut = if empty { 0 } else { d.len() * 2 / 3 };
            c.inputs.push(Input::bytes(p, d[..cut].to_vec()));
            stale.push(p.clone());
        }
    }
    if stale.is_empty() {
        return None;
    }
    c.oracle = "stale".into();
    c.name = format!("{} [outputs pre-exist as {}]", base.name, if empty { "empty files" } else { "prefixes of themselves" });
    c.meta = serde_json::json!({"stale": stale});
    Some(c)
}

/// Apply a light-weight variant to a scenario.
#[derive(Clone, Debug, Default)]
pub struct Variant {
    pub corrupt: Option<(usize, Vec<CorruptOp>)>,
    pub plan: Option<(usize, String)>,
    pub tag: String,
}

pub fn apply_variant(base: &Case, v: &Variant) -> Case {
    let mut c = base.clone();
    if let Some((i, ops)) = &v.corrupt {
        c.inputs[*i].corrupt.extend(ops.iter().cloned());
    }
    if let Some((k, plan)) = &v.plan {
        c.steps[*k].plan = plan.clone();
        if c.oracle == "failstop" {
            c.meta["step"] = serde_json::json!(*k);
        }
    }
    if !v.tag.is_empty() {
        c.name = format!("{} [{}]", c.name, v.tag);
    }
    c
}

/// Single-fault plans for one step, derived from its fault-free event log.
pub struct FaultSpace {
    pub read_side: bool,
    pub write_side: bool,
    /// also fault the metadata calls (stat family, realpath, readlink, getcwd) — judged by O-term /
    /// O-diag only: whether a path that cannot be examined "supplies" anything is not for us to say
    pub meta_side: bool,
    pub budgets: Budgets,
    pub seed: u64,
}

pub fn enumerate_faults(step_idx: usize, golden: &Outcome, space: &FaultSpace) -> Vec<Variant> {
    let mut out = vec![];
    let mut total_written: i64 = 0;
    for e in &golden.events {
        if e.seq < 0 {
            continue;
        }
        let mut errs: Vec<&str> = vec![];
        let mut shorts: Vec<i64> = vec![];
        match e.op.as_str() {
            "open" if space.read_side => errs.extend(["ENOENT", "EACCES", "EISDIR", "EMFILE", "EIO"]),
            "read" if space.read_side => {
                errs.extend(["EIO", "EISDIR"]);
                if e.ret > 1 {
                    shorts.extend([1, e.ret / 2]);
                }
                if e.ret > 0 {
                    // the file ends earlier than its size promised (it shrank after being stat'ed)
                    out.push(Variant { corrupt: None, plan: Some((step_idx, format!("at={}:zero", e.seq))), tag: format!("read@{}:eof", e.seq) });
                }
            }
            "creat" if space.write_side => errs.extend(["EACCES", "ENOSPC", "EROFS", "ENOENT"]),
            "write" if space.write_side => {
                errs.extend(["EIO", "ENOSPC"]);
                if e.ret > 1 {
                    shorts.extend([1, e.ret / 2]);
                }
                if e.ret > 0 {
                    out.push(Variant { corrupt: None, plan: Some((step_idx, format!("at={}:zero", e.seq))), tag: format!("write@{}:zero", e.seq) });
                }
                total_written += e.ret.max(0);
            }
            "lseek" if (space.write_side && golden_is_write_fd(golden, e)) || (space.read_side && !golden_is_write_fd(golden, e)) => errs.extend(["ESPIPE", "EIO"]),
            "mkdir" if space.write_side => errs.extend(["EACCES", "ENOSPC", "EIO"]),
            "stat" | "lstat" | "fstat" if space.meta_side => {
                errs.extend(["ENOENT", "EACCES", "EIO", "ELOOP"]);
                // the reported size is a hint, not the length: 0 (pipe-like) and 8 TiB (sparse)
                for sz in ["0", "8796093022208"] {
                    out.push(Variant { corrupt: None, plan: Some((step_idx, format!("at={}:size={}", e.seq, sz))), tag: format!("{}@{}:size={}", e.op, e.seq, sz) });
                }
            }
            "realpath" if space.meta_side => errs.extend(["ENOENT", "EACCES", "EIO", "ELOOP", "ENAMETOOLONG"]),
            "readlink" if space.meta_side => errs.extend(["EACCES", "EIO"]),
            "getcwd" if space.meta_side => errs.extend(["ENOENT", "EACCES"]),
            _ => {}
        }
        for er in errs {
            out.push(Variant { corrupt: None, plan: Some((step_idx, format!("at={}:{}", e.seq, er))), tag: format!("{}@{}:{}", e.op, e.seq, er) });
        }
        shorts.dedup();
        for n in shorts {
            out.push(Variant { corrupt: None, plan: Some((step_idx, format!("at={}:short={}", e.seq, n))), tag: format!("{}@{}:short{}", e.op, e.seq, n) });
        }
    }
    if space.write_side {
        for n in disk_full_budgets(golden, space.budgets, space.seed) {
            out.push(Variant { corrupt: None, plan: Some((step_idx, format!("full={}", n))), tag: format!("full={}", n) });
        }
    }
    let _ = total_written;
    out
}

#[derive(Clone, Copy, PartialEq, Debug)]
pub enum Budgets {
    /// every byte budget 0..total
    Complete,
    /// budgets on and around the boundaries of every write call (start, start+1, middle, end-1) —
    /// one representative per distinct "how far did this write get" behaviour
    Boundaries,
    /// boundaries plus a seed-rotated stride of about n further budgets
    BoundariesPlus(usize),
}

/// "disk full after N bytes" budgets for a step, derived from the write events of its fault-free run.
pub fn disk_full_budgets(golden: &Outcome, mode: Budgets, seed: u64) -> Vec<i64> {
    let mut set: BTreeSet<i64> = BTreeSet::new();
    let mut c: i64 = 0;
    for e in &golden.events {
        if e.op == "write" && e.ret > 0 {
            let s = e.ret;
            for b in [c, c + 1, c + s / 2, c + s - 1] {
                if b < c + s {
                    set.insert(b);
                }
            }
            c += s;
        }
    }
    let total = c;
    match mode {
        Budgets::Complete => (0..total).collect(),
        Budgets::Boundaries => set.into_iter().collect(),
        Budgets::BoundariesPlus(n) => {
            if n > 0 && total > 0 {
                let stride = ((total as usize + n - 1) / n).max(1) as i64;
                let mut b = (seed % stride as u64) as i64;
                while b < total {
                    set.insert(b);
                    b += stride;
                }
            }
            set.into_iter().collect()
        }
    }
}

fn golden_is_write_fd(golden: &Outcome, e: &crate::sandbox::Event) -> bool {
    // a path that was opened with creat in this run is an output
    golden.events.iter().any(|x| x.op == "creat" && x.path == e.path)
}

pub fn noise_variants(step_idx: usize, read_side: bool, write_side: bool) -> Vec<Variant> {
    let mut out = vec![];
    for p in [1, 2, 3, 5] {
        out.push(Variant { corrupt: None, plan: Some((step_idx, format!("eintr={}", p))), tag: format!("eintr={}", p) });
    }
    for n in [1, 2, 7, 64, 4096] {
        let rule = match (read_side, write_side) {
            (true, true) => format!("chunk={}", n),
            (true, false) => format!("rchunk={}", n),
            (false, _) => format!("wchunk={}", n),
        };
        out.push(Variant { corrupt: None, plan: Some((step_idx, rule.clone())), tag: rule.clone() });
        out.push(Variant { corrupt: None, plan: Some((step_idx, format!("{};eintr=2", rule))), tag: format!("{};eintr=2", rule) });
    }
    out
}

/// Deterministic thinning of a list to about `want` elements (seed-rotated stride), keeping order.
pub fn thin<T: Clone>(xs: &[T], want: usize, seed: u64) -> Vec<T> {
    if xs.len() <= want || want == 0 {
        return xs.to_vec();
    }
    let stride = (xs.len() + want - 1) / want;
    let off = (seed % stride as u64) as usize;
    xs.iter().enumerate().filter(|(i, _)| i % stride == off).map(|(_, x)| x.clone()).collect()
}

pub fn group_hash_map<K: std::hash::Hash + Eq, V>(items: impl Iterator<Item = (K, V)>) -> HashMap<K, Vec<V>> {
    let mut m: HashMap<K, Vec<V>> = HashMap::new();
    for (k, v) in items {
        m.entry(k).or_default().push(v);
    }
    m
}

// ---------------------------------------------------------------------------------------------
// Fault campaigns: (scenario, step) x single-fault space, judged by the fail-stop oracle.

pub struct FaultJob {
    pub base: Case,
    pub step: usize,
    pub space: FaultSpace,
    pub noise: bool,
    /// keep at most this many variants (seed-rotated thinning); 0 = all
    pub max_variants: usize,
}

pub struct CampaignResult {
    pub stats: Stats,
    pub findings: Vec<Finding>,
    pub harness_errors: Vec<String>,
    pub variants: usize,
    pub skipped_jobs: usize,
    pub samples: Vec<serde_json::Value>,
}

pub fn run_fault_campaign(ctx: &Ctx, jobs: &[FaultJob]) -> CampaignResult {
    // phase A: fault-free dry runs -> variant lists
    let (lists, mut stats, mut findings, mut herr) = par_map(ctx, jobs, |w, _, job| {
        let mut base = job.base.clone();
        base.oracle = "failstop".into();
        let g = w.golden(&base);
        if g.len() <= job.step || !g[job.step].ok() {
            w.stats.probe("skip:golden-step-not-successful");
            return None;
        }
        let mut vs = enumerate_faults(job.step, &g[job.step], &job.space);
        if job.noise {
            vs.extend(noise_variants(job.step, job.space.read_side, job.space.write_side));
        }
        if job.max_variants > 0 {
            vs = thin(&vs, job.max_variants, job.space.seed);
        }
        Some(vs)
    });
    let mut items: Vec<(usize, Vec<Variant>)> = vec![];
    let mut skipped = 0;
    let mut nvar = 0;
    for (ji, l) in lists.into_iter().enumerate() {
        match l {
            None => skipped += 1,
            Some(vs) => {
                nvar += vs.len();
                for ch in vs.chunks(40) {
                    items.push((ji, ch.to_vec()));
                }
            }
        }
    }
    let samples: Vec<serde_json::Value> = items
        .iter()
        .step_by((items.len() / 3).max(1))
        .take(3)
        .map(|(ji, vs)| serde_json::json!({"scenario": jobs[*ji].base.name, "step": jobs[*ji].base.steps[jobs[*ji].step].argv.join(" "), "fault_plans": vs.iter().take(6).map(|v| v.plan.as_ref().map(|p| p.1.clone()).unwrap_or_default()).collect::<Vec<_>>()}))
        .collect();
    // phase B: judge every variant
    let (_r, st2, f2, h2) = par_map(ctx, &items, |w, _, (ji, vs)| {
        let job = &jobs[*ji];
        let mut base = job.base.clone();
        base.oracle = "failstop".into();
        base.meta["step"] = serde_json::json!(job.step);
        // under a fault too: no crash, and failure <=> an error-severity diagnostic
        base.meta["also_term"] = serde_json::json!(true);
        for v in vs {
            let case = apply_variant(&base, v);
            w.judge(&case);
        }
    });
    stats.merge(st2);
    findings.extend(f2);
    herr.extend(h2);
    CampaignResult { stats, findings, harness_errors: herr, variants: nvar, skipped_jobs: skipped, samples }
}
