mod case;
mod checks;
mod corpus;
mod corrupt;
mod engine;
mod oracle;
mod report;
mod rng;
mod sandbox;
mod scen;
mod selftest;

use engine::{Ctx, Tier};
use std::path::PathBuf;

fn env_or(k: &str, d: &str) -> String {
    std::env::var(k).ok().filter(|s| !s.is_empty()).unwrap_or_else(|| d.to_string())
}

fn main() {
    let args: Vec<String> = std::env::args().skip(1).collect();
    if args.is_empty() {
        eprintln!("usage: trusim <C01|C03|C04|C16|C17|C18|C19|selftest-determinism> [--tier quick|thorough] [--replay FILE]");
        std::process::exit(2);
    }
    let what = args[0].clone();
    if what == "build-only" {
        println!("build ok");
        return;
    }
    let mut tier = env_or("VERIF_TIER", "quick");
    let mut replay: Option<PathBuf> = None;
    let mut i = 1;
    while i < args.len() {
        match args[i].as_str() {
            "--tier" => {
                tier = args[i + 1].clone();
                i += 2;
            }
            "--replay" => {
                replay = Some(PathBuf::from(&args[i + 1]));
                i += 2;
            }
            other => {
                eprintln!("unknown argument {}", other);
                std::process::exit(2);
            }
        }
    }
    let verif = PathBuf::from(env_or("TRUSIM_VERIF", "/verif"));
    let seed: u64 = env_or("VERIF_SEED", "1").parse().unwrap_or(1);
    let jobs: usize = env_or("TRUSIM_JOBS", "").parse().unwrap_or_else(|_| std::thread::available_parallelism().map(|n| n.get()).unwrap_or(4));
    // sandboxes of earlier runs that were killed before they could clean up (tmpfs = RAM)
    if let Ok(rd) = std::fs::read_dir("/dev/shm") {
        for e in rd.flatten() {
            let name = e.file_name().to_string_lossy().into_owned();
            if let Some(pid) = name.strip_prefix("trusim.").and_then(|p| p.parse::<u32>().ok()) {
                if !std::path::Path::new(&format!("/proc/{}", pid)).exists() {
                    let _ = std::fs::remove_dir_all(e.path());
                }
            }
        }
    }
    // (fixed-width names: truth writes canonicalised absolute paths into some outputs, and although the
    //  driver normalises them afterwards, their *length* shows in write sizes, i.e. in the event traces)
    let base_dir = PathBuf::from(format!("/dev/shm/trusim.{:08}", std::process::id()));
    std::fs::create_dir_all(&base_dir).expect("create /dev/shm sandbox base");
    let cfg = sandbox::Config {
        truth_bin: PathBuf::from(env_or("TRUSIM_TRUTH_BIN", "/verif/.cache/truth-target/release/truth-core")),
        shim: PathBuf::from(env_or("TRUSIM_SHIM", "/verif/shim/libtrusim_preload.so")),
        repo: PathBuf::from(env_or("TRUSIM_REPO", "/repo")),
        cpu_limit_s: env_or("TRUSIM_CPU_S", "10").parse().unwrap_or(10),
        as_limit_bytes: 1 << 30,
    };
    let ctx = Ctx { cfg, corpus: corpus::Corpus::load(&verif.join("corpus")), tier: if tier == "thorough" { Tier::Thorough } else { Tier::Quick }, seed, jobs, base_dir: base_dir.clone(), verif };
    println!("VERIF_SEED={} tier={} jobs={} property={}", seed, tier, jobs, what);
    let t0 = std::time::Instant::now();
    let code = if let Some(p) = replay {
        report::replay(&ctx, &p)
    } else {
        if what == "selftest-determinism" {
            let n: usize = std::env::var("SELFTEST_CASES").ok().and_then(|v| v.parse().ok()).unwrap_or(600);
            let code = selftest::run(&ctx, n);
            let _ = std::fs::remove_dir_all(&base_dir);
            std::process::exit(code);
        }
        if what == "fields" {
            // debugging aid: only the field-for-field workload of C03, violations grouped by class
            let cases = checks::fields::field_cases(&ctx);
            let (_r, stats, findings, herr) = engine::par_map(&ctx, &cases, |w, _, c| w.judge(c));
            let mut by: std::collections::BTreeMap<String, Vec<&engine::Finding>> = Default::default();
            for f in &findings {
                by.entry(f.violation.class.clone()).or_default().push(f);
            }
            for (c, fs) in &by {
                println!("{:4} {}\n       e.g. {}: {}", fs.len(), c, fs[0].case.name, fs[0].violation.detail.replace('\n', " | "));
            }
            if let Ok(pat) = std::env::var("SHOW_REFUSED") {
                let (_r, _, _, _) = engine::par_map(&ctx, &cases, |w, _, c| {
                    let g = w.golden(c);
                    if (!g[0].ok() && g[0].stderr_str().contains(&pat)) || c.name == pat {
                        println!("=== {}\n{}\n--- stderr\n{}", c.name, c.inputs.iter().filter_map(|i| match &i.base { case::Base::Text(t) => Some(format!("--- {}\n{}", i.path, t)), _ => None }).collect::<Vec<_>>().join("\n"), g[0].stderr_str());
                        if c.name == pat {
                            for o in g.iter() {
                                println!("exit={:?}\n{}", o.exit, o.stderr_str());
                                for (k, v) in &o.files {
                                    if k.ends_with(".txt") {
                                        println!("--- {}\n{}", k, String::from_utf8_lossy(v));
                                    }
                                }
                            }
                        }
                    }
                });
            }
            println!("cases={} runs={} probes={:?} harness_errors={:?}", cases.len(), stats.runs, stats.probes, herr);
            let _ = std::fs::remove_dir_all(&base_dir);
            std::process::exit(0);
        }
        if what == "run-item" {
            // debugging aid: run the compile(+extras) -> decompile -> recompile pipeline of matching corpus items once
            let pat = std::env::var("ITEM").unwrap_or_default();
            let items: Vec<_> = ctx.corpus.items.iter().filter(|i| i.id.contains(&pat)).cloned().collect();
            let (_r, _, _, _) = engine::par_map(&ctx, &items, |w, _, item| {
                let mut c = if item.kind == "source" { scen::source_roundtrip_case(item, &[], None) } else { scen::binary_roundtrip_case(item, &[], None, true) };
                if item.kind == "source" {
                    c.steps[0].argv.extend(["--output-debug-info".to_string(), "debug.json".to_string()]);
                }
                let outs = w.run_pipeline(&c);
                let mut s = format!("=== {}\n", item.id);
                for (st, o) in c.steps.iter().zip(outs.iter()) {
                    s.push_str(&format!("$ {}\n  exit={:?} sig={:?} events={} files={:?}\n{}", st.argv.join(" "), o.exit, o.signal, o.events.len(), o.files.iter().map(|(k, v)| (k.clone(), v.len())).collect::<Vec<_>>(), o.stderr_str()));
                    if std::env::var("SHOW").is_ok() {
                        for (k, v) in &o.files {
                            if k.ends_with(".txt") || k.ends_with(".json") {
                                s.push_str(&format!("--- {}\n{}\n", k, String::from_utf8_lossy(v)));
                            }
                        }
                    }
                }
                println!("{}", s);
            });
            let _ = std::fs::remove_dir_all(&base_dir);
            std::process::exit(0);
        }
        let res = match what.as_str() {
            "C19" => Some(checks::c19::run(&ctx)),
            "C03" => Some(checks::c03::run(&ctx)),
            "C17" => Some(checks::c17::run(&ctx)),
            "C04" => Some(checks::c04::run(&ctx)),
            "C16" => Some(checks::c16::run(&ctx)),
            "C01" => Some(checks::c01::run(&ctx)),
            "C18" => Some(checks::c18::run(&ctx)),
            _ => None,
        };
        match res {
            Some(r) => report::finish(&ctx, r, t0.elapsed().as_secs_f64()),
            None => {
                eprintln!("unknown check {}", what);
                2
            }
        }
    };
    let _ = std::fs::remove_dir_all(&base_dir);
    std::process::exit(code);
}
