//! Turning findings into output: dedupe by class, minimise, write replay files, consult the
//! known-findings file, print KNOWN-FINDING / VIOLATION lines, write the evidence file.

use crate::case::{Case, CorruptOp};
use crate::engine::{par_map, Ctx, Finding, Stats, Tier};
use crate::rng;
use serde_json::{json, Value};
use std::collections::BTreeMap;

pub struct Known {
    pub known: Vec<(String, String, String)>, // property, class, what
}

impl Known {
    pub fn load(ctx: &Ctx) -> Known {
        let p = ctx.verif.join("known-findings.json");
        let mut k = Known { known: vec![] };
        if let Ok(data) = std::fs::read(&p) {
            if let Ok(v) = serde_json::from_slice::<Value>(&data) {
                for e in v.get("known").and_then(|k| k.as_array()).cloned().unwrap_or_default() {
                    k.known.push((
                        e.get("property").and_then(|x| x.as_str()).unwrap_or("").to_string(),
                        e.get("class").and_then(|x| x.as_str()).unwrap_or("").to_string(),
                        e.get("what").and_then(|x| x.as_str()).unwrap_or("").to_string(),
                    ));
                }
            }
        }
        k
    }
    pub fn lookup(&self, property: &str, class: &str) -> Option<&str> {
        self.known.iter().find(|(p, c, _)| p == property && c == class).map(|(_, _, w)| w.as_str())
    }
}

/// One evaluation of `case`: does a violation of `class` occur?
fn reproduces(ctx: &Ctx, case: &Case, class: &str) -> bool {
    let items = [case.clone()];
    let (res, _, _, _) = par_map(ctx, &items, |w, _, c| w.eval_case(c).iter().any(|v| v.class == class));
    res[0]
}

/// Shrink a failing case while the same violation class persists.
pub fn minimise(ctx: &Ctx, case: &Case, class: &str, budget: usize) -> (Case, usize) {
    let mut best = case.clone();
    let mut evals = 0usize;
    let mut try_candidate = |best: &mut Case, cand: Case, evals: &mut usize| -> bool {
        if *evals >= budget {
            return false;
        }
        *evals += 1;
        if reproduces(ctx, &cand, class) {
            *best = cand;
            true
        } else {
            false
        }
    };
    // bake storage corruptions of text inputs into the text, then delta-debug the text by lines:
    // the replay file then shows a small literal input instead of a large base plus edit script
    for ii in 0..best.inputs.len() {
        let baked: Option<String> = match (&best.inputs[ii].base, best.inputs[ii].corrupt.is_empty()) {
            (crate::case::Base::Text(t), false) => {
                let mut d = t.clone().into_bytes();
                for op in &best.inputs[ii].corrupt {
                    op.apply(&mut d, &ctx.corpus);
                }
                String::from_utf8(d).ok()
            }
            _ => None,
        };
        if let Some(t) = baked {
            let mut c = best.clone();
            c.inputs[ii].base = crate::case::Base::Text(t);
            c.inputs[ii].corrupt.clear();
            try_candidate(&mut best, c, &mut evals);
        }
    }
    for ii in 0..best.inputs.len() {
        if !best.inputs[ii].corrupt.is_empty() {
            continue;
        }
        let text = match &best.inputs[ii].base {
            crate::case::Base::Text(t) => t.clone(),
            _ => continue,
        };
        let mut lines: Vec<String> = text.split_inclusive('\n').map(String::from).collect();
        let mut chunk = (lines.len() / 2).max(1);
        while chunk >= 1 && evals < budget && lines.len() > 1 {
            let mut i = 0;
            let mut removed_any = false;
            while i < lines.len() && evals < budget {
                let end = (i + chunk).min(lines.len());
                let mut cand_lines = lines.clone();
                cand_lines.drain(i..end);
                let mut c = best.clone();
                c.inputs[ii].base = crate::case::Base::Text(cand_lines.concat());
                if try_candidate(&mut best, c, &mut evals) {
                    lines = cand_lines;
                    removed_any = true;
                } else {
                    i = end;
                }
            }
            if chunk == 1 && !removed_any {
                break;
            }
            if !removed_any {
                chunk /= 2;
            }
        }
    }
    let mut progress = true;
    while progress && evals < budget {
        progress = false;
        // seed oracle: reduce to a pair of small keys
        if best.oracle == "seed" {
            let keys: Vec<u64> = best.meta.get("keys").and_then(|k| k.as_array()).map(|a| a.iter().filter_map(|x| x.as_u64()).collect()).unwrap_or_default();
            if keys.len() > 2 || keys.iter().any(|k| *k > 16) {
                'outer: for a in 1..=8u64 {
                    for b in (a + 1)..=8u64 {
                        let mut c = best.clone();
                        c.meta["keys"] = json!([a, b]);
                        if try_candidate(&mut best, c, &mut evals) {
                            progress = true;
                            break 'outer;
                        }
                    }
                }
            }
        }
        // drop trailing steps
        while best.steps.len() > 1 {
            let mut c = best.clone();
            c.steps.pop();
            if let Some(k) = c.meta.get("step").and_then(|s| s.as_u64()) {
                if k as usize >= c.steps.len() {
                    break;
                }
            }
            if try_candidate(&mut best, c, &mut evals) {
                progress = true;
            } else {
                break;
            }
        }
        // drop plan rules
        for si in 0..best.steps.len() {
            let rules: Vec<String> = best.steps[si].plan.split(';').filter(|r| !r.is_empty()).map(String::from).collect();
            if rules.len() > 1 {
                for ri in 0..rules.len() {
                    let mut r2 = rules.clone();
                    r2.remove(ri);
                    let mut c = best.clone();
                    c.steps[si].plan = r2.join(";");
                    if try_candidate(&mut best, c, &mut evals) {
                        progress = true;
                        break;
                    }
                }
            }
        }
        // drop / shrink corruption ops
        for ii in 0..best.inputs.len() {
            let mut oi = 0;
            while oi < best.inputs[ii].corrupt.len() {
                let mut c = best.clone();
                c.inputs[ii].corrupt.remove(oi);
                if try_candidate(&mut best, c, &mut evals) {
                    progress = true;
                    continue;
                }
                let shrunk = match &best.inputs[ii].corrupt[oi] {
                    CorruptOp::Zero { off, len } if *len > 1 => Some(CorruptOp::Zero { off: *off, len: len / 2 }),
                    CorruptOp::Dup { off, len } if *len > 1 => Some(CorruptOp::Dup { off: *off, len: len / 2 }),
                    CorruptOp::Del { off, len } if *len > 1 => Some(CorruptOp::Del { off: *off, len: len / 2 }),
                    CorruptOp::Ins { off, bytes } if bytes.len() > 1 => Some(CorruptOp::Ins { off: *off, bytes: bytes[..bytes.len() / 2].to_vec() }),
                    _ => None,
                };
                if let Some(s) = shrunk {
                    let mut c = best.clone();
                    c.inputs[ii].corrupt[oi] = s;
                    if try_candidate(&mut best, c, &mut evals) {
                        progress = true;
                        continue;
                    }
                }
                oi += 1;
            }
        }
        // drop optional flags (highest index first so indices stay valid)
        for si in 0..best.steps.len() {
            let mut opts = best.steps[si].optional.clone();
            opts.sort();
            for &ai in opts.iter().rev() {
                let mut c = best.clone();
                if ai >= c.steps[si].argv.len() {
                    continue;
                }
                c.steps[si].argv.remove(ai);
                c.steps[si].optional = c.steps[si].optional.iter().filter(|&&x| x != ai).map(|&x| if x > ai { x - 1 } else { x }).collect();
                if try_candidate(&mut best, c, &mut evals) {
                    progress = true;
                }
            }
        }
        // drop whole inputs that are not needed
        let mut ii = 0;
        while ii < best.inputs.len() && best.inputs.len() > 1 {
            let mut c = best.clone();
            c.inputs.remove(ii);
            if try_candidate(&mut best, c, &mut evals) {
                progress = true;
            } else {
                ii += 1;
            }
        }
    }
    (best, evals)
}

pub struct CheckResult {
    pub property: String,
    pub level: &'static str,
    pub stats: Stats,
    pub findings: Vec<Finding>,
    pub harness_errors: Vec<String>,
    pub rule: String,
    pub samples: Vec<Value>,
    pub extra: BTreeMap<String, Value>,
    pub exhaustive: bool,
    pub assumptions: Vec<String>,
}

/// Where evidence/, replays/ and known-replays/ are written: /verif, unless TRUSIM_OUT redirects
/// them (used when a check is pointed at a scratch copy of the repository, e.g. a seeded change).
fn out_dir(ctx: &Ctx) -> std::path::PathBuf {
    match std::env::var("TRUSIM_OUT") {
        Ok(d) if !d.is_empty() => std::path::PathBuf::from(d),
        _ => ctx.verif.clone(),
    }
}

fn class_slug(class: &str) -> String {
    format!("{:016x}", rng::hash_bytes(class.as_bytes()))
}

/// Process the findings of a check: returns the process exit code.
pub fn finish(ctx: &Ctx, mut res: CheckResult, wall_s: f64) -> i32 {
    let known = Known::load(ctx);
    // group findings by class, keep the first (lowest item index) as representative
    let mut by_class: BTreeMap<String, Vec<Finding>> = BTreeMap::new();
    for f in res.findings.drain(..) {
        by_class.entry(f.violation.class.clone()).or_default().push(f);
    }
    let mut n_violations = 0;
    let mut n_known = 0;
    let mut reported: Vec<Value> = vec![];
    let replay_dir = out_dir(ctx).join("replays");
    let _ = std::fs::create_dir_all(&replay_dir);
    let max_min = 12; // minimise at most this many distinct new classes per run
    let mut minimised_n = 0;
    for (class, fs) in &by_class {
        let f = &fs[0];
        if let Some(what) = known.lookup(&res.property, class) {
            println!("KNOWN-FINDING: property={} {} [{}] ({} occurrence(s) this run)", res.property, what, class, fs.len());
            n_known += 1;
            reported.push(json!({"class": class, "known": true, "occurrences": fs.len()}));
            // keep a replayable scenario for every known finding (written once, then left alone)
            let kdir = out_dir(ctx).join("known-replays");
            let _ = std::fs::create_dir_all(&kdir);
            let kpath = kdir.join(format!("{}-{}.json", res.property, class_slug(class)));
            if !kpath.exists() {
                let doc = json!({"property": res.property, "class": class, "what": what, "detail": f.violation.detail, "case": f.case});
                let _ = std::fs::write(&kpath, serde_json::to_vec_pretty(&doc).unwrap());
            }
            continue;
        }
        n_violations += 1;
        let (case, evals, minimised) = if minimised_n < max_min {
            minimised_n += 1;
            // the case must reproduce in isolation first
            if reproduces(ctx, &f.case, class) {
                let (c, e) = minimise(ctx, &f.case, class, 250);
                (c, e, true)
            } else {
                res.harness_errors.push(format!("finding did not reproduce in isolation: {} {}", class, f.case.name));
                (f.case.clone(), 1, false)
            }
        } else {
            (f.case.clone(), 0, false)
        };
        let path = replay_dir.join(format!("{}-{}.json", res.property, class_slug(class)));
        let doc = json!({
            "property": res.property, "class": class, "verif_seed": ctx.seed,
            "tier": if ctx.tier == Tier::Quick { "quick" } else { "thorough" },
            "detail": f.violation.detail, "occurrences": fs.len(),
            "minimised": minimised, "reexecutions": evals,
            "case": case,
        });
        std::fs::write(&path, serde_json::to_vec_pretty(&doc).unwrap()).expect("write replay");
        println!("VIOLATION property={} replay={}", res.property, path.display());
        println!("  class: {}", class);
        println!("  scenario: {}", case.name);
        println!("  detail: {}", f.violation.detail.replace('\n', "\n          "));
        println!("  occurrences this run: {}", fs.len());
        reported.push(json!({"class": class, "known": false, "occurrences": fs.len(), "replay": path.display().to_string()}));
    }
    if crate::engine::stopped_early() {
        println!("NOTE: too many findings; the remaining cases of this run were skipped (TRUSIM_MAX_FINDINGS)");
    }
    for e in res.harness_errors.iter().take(20) {
        eprintln!("HARNESS-ERROR: {}", e);
    }

    // evidence
    let runs_per_hour = if wall_s > 0.0 { (res.stats.runs as f64 / wall_s * 3600.0) as u64 } else { 0 };
    let mut coverage = json!({
        "evaluations": res.stats.runs,
        "distinct_nontrivial": res.stats.nontrivial.len(),
        "rule": res.rule,
        "samples": res.samples,
        "exhaustive": res.exhaustive,
        "cases_judged": res.stats.cases,
        "simulated_runs_per_hour": runs_per_hour,
        "simulated_time": "not applicable: the system reads no clock; tracked I/O events are reported instead",
        "tracked_io_events": res.stats.events,
        "distinct_io_traces": res.stats.traces.len(),
        "fault_kinds_fired": res.stats.fired,
        "reach_probes": res.stats.probes,
        "determinism_recheck": {"reexecuted": res.stats.recheck.0, "mismatched": res.stats.recheck.1},
        "components": {
            "real": "truth-core release binary built from /repo's working tree (all of truth, std, image, png, encoding_rs, codespan), kernel tmpfs",
            "replaced": "entropy source (getrandom -> seeded key), results of selected libc I/O calls on sandbox paths (by plan)"
        },
        "violation_classes": reported,
        "known_findings_matched": n_known,
    });
    for (k, v) in &res.extra {
        coverage[k] = v.clone();
    }
    let ev = json!({
        "property_id": res.property,
        "tier": if ctx.tier == Tier::Quick { "quick" } else { "thorough" },
        "seed": ctx.seed,
        "level": res.level,
        "coverage": coverage,
        "assumptions": res.assumptions,
        "wall_s": wall_s,
        "violations": n_violations,
    });
    let evdir = out_dir(ctx).join("evidence");
    let _ = std::fs::create_dir_all(&evdir);
    std::fs::write(evdir.join(format!("{}.json", res.property)), serde_json::to_vec_pretty(&ev).unwrap()).expect("write evidence");

    println!(
        "{}: tier={:?} seed={} runs={} cases={} nontrivial={} traces={} violations={} known={} wall={:.1}s",
        res.property,
        ctx.tier,
        ctx.seed,
        res.stats.runs,
        res.stats.cases,
        res.stats.nontrivial.len(),
        res.stats.traces.len(),
        n_violations,
        n_known,
        wall_s
    );
    if !res.harness_errors.is_empty() {
        return 2;
    }
    if n_violations > 0 {
        1
    } else {
        0
    }
}

/// `--replay <file>`: re-execute the stored case; exit 1 iff its class reproduces.
pub fn replay(ctx: &Ctx, path: &std::path::Path) -> i32 {
    let doc: Value = match std::fs::read(path).ok().and_then(|d| serde_json::from_slice(&d).ok()) {
        Some(v) => v,
        None => {
            eprintln!("cannot read replay file {}", path.display());
            return 2;
        }
    };
    let case: Case = match serde_json::from_value(doc["case"].clone()) {
        Ok(c) => c,
        Err(e) => {
            eprintln!("bad case in replay file: {}", e);
            return 2;
        }
    };
    let class = doc["class"].as_str().unwrap_or("").to_string();
    let items = [case.clone()];
    let (res, _, _, herr) = par_map(ctx, &items, |w, _, c| w.eval_case(c));
    for e in &herr {
        eprintln!("HARNESS-ERROR: {}", e);
    }
    let mut hit = false;
    for v in &res[0] {
        println!("replayed violation: class={} detail={}", v.class, v.detail.replace('\n', " | "));
        if v.class == class {
            hit = true;
        }
    }
    if hit {
        println!("VIOLATION property={} replay={}", case.property, path.display());
        1
    } else {
        println!("replay of {} did not reproduce class {}", path.display(), class);
        0
    }
}
