//! The storage fault model: what a file can look like when the disk returns it.
//! Deterministic enumeration of single faults (truncation, byte faults, field-sized faults, block
//! faults, torn writes; for text also invalid UTF-8 / NUL / lone CR), plus seeded double faults.

use crate::case::CorruptOp;
use crate::rng::Rng;

#[derive(Clone, Debug)]
pub struct Corruption {
    pub ops: Vec<CorruptOp>,
    /// offset the fault is anchored at (for header-weighted selection)
    pub off: usize,
    pub kind: &'static str,
}

fn set_bytes(off: usize, bytes: &[u8], data: &[u8]) -> Option<Vec<CorruptOp>> {
    if off + bytes.len() > data.len() || &data[off..off + bytes.len()] == bytes {
        return None;
    }
    Some(bytes.iter().enumerate().filter(|(i, b)| data[off + i] != **b).map(|(i, b)| CorruptOp::Set { off: off + i, val: *b }).collect())
}

/// Every single storage fault of a binary file.
pub fn binary_faults(data: &[u8], peers: &[String]) -> Vec<Corruption> {
    let n = data.len();
    let mut out = vec![];
    // truncation at every offset
    for at in 0..n {
        out.push(Corruption { ops: vec![CorruptOp::Trunc { at }], off: at, kind: "trunc" });
    }
    // byte faults
    for off in 0..n {
        let b = data[off];
        let mut vals = vec![0x00, 0xFF, 0x7F, 0x80, b ^ 0x01, b ^ 0x80, b.wrapping_add(1), b.wrapping_sub(1)];
        vals.sort();
        vals.dedup();
        for v in vals {
            if v != b {
                out.push(Corruption { ops: vec![CorruptOp::Set { off, val: v }], off, kind: "byte" });
            }
        }
    }
    // field-sized faults: 16-bit at even offsets, 32-bit at 4-aligned offsets
    for off in (0..n.saturating_sub(1)).step_by(2) {
        let v = u16::from_le_bytes([data[off], data[off + 1]]);
        for nv in [0u16, 1, 0xFFFF, 0x7FFF, 0x8000, v.wrapping_add(1), v.wrapping_mul(2), v.wrapping_sub(1)] {
            if let Some(ops) = set_bytes(off, &nv.to_le_bytes(), data) {
                if ops.len() > 1 {
                    out.push(Corruption { ops, off, kind: "word" });
                }
            }
        }
    }
    for off in (0..n.saturating_sub(3)).step_by(4) {
        let v = u32::from_le_bytes([data[off], data[off + 1], data[off + 2], data[off + 3]]);
        let l = n as u32;
        for nv in [0u32, 1, 0xFFFF_FFFF, 0x7FFF_FFFF, 0x8000_0000, 0xFFFF_FFF0, 0x0001_0000, 0x4000_0000, l, l.wrapping_sub(1), l.wrapping_add(1), l.wrapping_sub(4), v.wrapping_add(4), v.wrapping_sub(4), v.wrapping_mul(2), v.wrapping_add(1)] {
            if let Some(ops) = set_bytes(off, &nv.to_le_bytes(), data) {
                if ops.len() > 1 {
                    out.push(Corruption { ops, off, kind: "dword" });
                }
            }
        }
    }
    // block faults at 4-aligned offsets
    for off in (0..n).step_by(4) {
        for len in [4usize, 16] {
            if data[off..(off + len).min(n)].iter().any(|b| *b != 0) {
                out.push(Corruption { ops: vec![CorruptOp::Zero { off, len }], off, kind: "zero-block" });
            }
            out.push(Corruption { ops: vec![CorruptOp::Dup { off, len }], off, kind: "dup-block" });
            out.push(Corruption { ops: vec![CorruptOp::Del { off, len }], off, kind: "del-block" });
        }
    }
    // torn writes: prefix of this file, suffix of a peer of the same kind
    for (pi, p) in peers.iter().enumerate() {
        let step = (n / 12).max(1);
        for at in (step..n).step_by(step) {
            out.push(Corruption { ops: vec![CorruptOp::Torn { at: at + pi % 4, other: p.clone() }], off: at, kind: "torn" });
        }
    }
    out
}

/// Every single storage fault of a text file (script source or mapfile).
pub fn text_faults(data: &[u8], peers: &[String]) -> Vec<Corruption> {
    let n = data.len();
    let mut out = vec![];
    for at in 0..n {
        out.push(Corruption { ops: vec![CorruptOp::Trunc { at }], off: at, kind: "trunc" });
    }
    for off in 0..n {
        let b = data[off];
        let mut vals = vec![0x00, 0xFF, 0x80, b ^ 0x01, b ^ 0x20, b.wrapping_add(1), b.wrapping_sub(1), b'\r', b'"', b'{', b'0', b'%', b'\\'];
        vals.sort();
        vals.dedup();
        for v in vals {
            if v != b {
                out.push(Corruption { ops: vec![CorruptOp::Set { off, val: v }], off, kind: "byte" });
            }
        }
    }
    for off in (0..n).step_by(3) {
        for len in [1usize, 8] {
            out.push(Corruption { ops: vec![CorruptOp::Dup { off, len }], off, kind: "dup-block" });
            out.push(Corruption { ops: vec![CorruptOp::Del { off, len }], off, kind: "del-block" });
        }
        // invalid UTF-8 lead byte, lone continuation byte, overlong, NUL, lone CR inserted
        for bytes in [vec![0xC3u8], vec![0xA9], vec![0xE2, 0x82], vec![0xF0, 0x9F, 0x98], vec![0xC0, 0x80], vec![0x00], vec![b'\r'], vec![0xEF, 0xBB, 0xBF],
            // valid multi-byte characters that Unicode counts as whitespace / line breaks
            vec![0xE3, 0x80, 0x80], vec![0xC2, 0xA0], vec![0xE2, 0x80, 0xA8], vec![0xC2, 0x85], vec![0xE2, 0x80, 0x83]] {
            out.push(Corruption { ops: vec![CorruptOp::Ins { off, bytes }], off, kind: "insert" });
        }
    }
    for (pi, p) in peers.iter().enumerate() {
        let step = (n / 10).max(1);
        for at in (step..n).step_by(step) {
            out.push(Corruption { ops: vec![CorruptOp::Torn { at: at + pi % 3, other: p.clone() }], off: at, kind: "torn" });
        }
    }
    out
}

/// Seed-rotated, header-weighted selection: keep every `near`-th fault anchored in the first
/// `header` bytes and every `far`-th fault elsewhere.  The union over `near*far`-many consecutive
/// seeds is the complete space.
pub fn select(all: &[Corruption], header: usize, near: usize, far: usize, seed: u64) -> Vec<Corruption> {
    select_by(all, &|off| off < header, near, far, seed)
}

/// Offsets that belong to structure (headers, tables) rather than payload: the first `prefix` bytes
/// plus a window around every occurrence of a 4-byte ASCII section tag such as `THTX`.
pub fn structural_offsets(data: &[u8], prefix: usize) -> Vec<bool> {
    let mut m = vec![false; data.len()];
    for i in 0..data.len().min(prefix) {
        m[i] = true;
    }
    for i in 0..data.len().saturating_sub(3) {
        if &data[i..i + 4] == b"THTX" {
            for j in i.saturating_sub(8)..(i + 24).min(data.len()) {
                m[j] = true;
            }
        }
    }
    m
}

/// Only the windows around `THTX` tags (texture headers).
pub fn texture_header_offsets(data: &[u8]) -> Vec<bool> {
    let mut m = vec![false; data.len()];
    for i in 0..data.len().saturating_sub(3) {
        if &data[i..i + 4] == b"THTX" {
            for j in i..(i + 16).min(data.len()) {
                m[j] = true;
            }
        }
    }
    m
}

pub fn select_by(all: &[Corruption], is_header: &dyn Fn(usize) -> bool, near: usize, far: usize, seed: u64) -> Vec<Corruption> {
    let mut out = vec![];
    let (mut i_near, mut i_far) = (0usize, 0usize);
    for c in all {
        if is_header(c.off) {
            if near <= 1 || i_near % near == (seed as usize) % near {
                out.push(c.clone());
            }
            i_near += 1;
        } else {
            if far <= 1 || i_far % far == (seed as usize) % far {
                out.push(c.clone());
            }
            i_far += 1;
        }
    }
    out
}

/// Seeded double faults: two single faults of the same file combined.
pub fn double_faults(all: &[Corruption], count: usize, rng: &mut Rng) -> Vec<Corruption> {
    let mut out = vec![];
    if all.len() < 2 {
        return out;
    }
    for _ in 0..count {
        let a = &all[rng.below(all.len() as u64) as usize];
        let b = &all[rng.below(all.len() as u64) as usize];
        // apply the one with the larger offset first so that offsets of the other stay meaningful
        let (first, second) = if a.off >= b.off { (a, b) } else { (b, a) };
        let mut ops = first.ops.clone();
        ops.extend(second.ops.iter().cloned());
        out.push(Corruption { ops, off: second.off, kind: "double" });
    }
    out
}
