//! `trusim selftest-determinism`: the simulator must be a pure function of (case, binary, corpus).
//! A sample of cases of every kind (hash keys, I/O fault plans, storage corruptions, multi-step
//! pipelines) is executed twice, in different orders (hence on different workers / sandboxes), and
//! the full observable tuples and the shim's event logs are compared.  The printed digest must also
//! be identical across processes and worker counts (tools/selftest_determinism.sh checks that).

use crate::case::Case;
use crate::engine::*;
use crate::oracle::Tuple;
use crate::rng::{self, Rng};
use crate::{checks, corrupt, scen};

fn digest_outcomes(outs: &[crate::sandbox::Outcome]) -> u64 {
    let mut h: u64 = 0x1234_5678;
    for o in outs {
        let t = Tuple::of(o);
        let mut buf: Vec<u8> = vec![];
        buf.extend_from_slice(format!("{:?}{:?}", t.exit, t.signal).as_bytes());
        buf.extend_from_slice(&t.stdout);
        buf.extend_from_slice(&t.stderr);
        for (k, v) in &t.files {
            buf.extend_from_slice(k.as_bytes());
            buf.extend_from_slice(v);
        }
        h = h.rotate_left(7) ^ rng::hash_bytes(&buf) ^ o.trace_hash.rotate_left(29);
    }
    h
}

pub fn sample_cases(ctx: &Ctx, n: usize) -> Vec<Case> {
    let mut cases: Vec<Case> = vec![];
    let mut rng = Rng::new(rng::mix(ctx.seed, "selftest", 0));
    // pipelines under a drawn key
    let c19 = checks::c19::scenarios(ctx);
    for _ in 0..n / 3 {
        let mut c = rng.pick(&c19).clone();
        let key = rng.next() | 1;
        for s in &mut c.steps {
            s.key = key;
        }
        cases.push(c);
    }
    // fault plans on compile steps
    let items: Vec<_> = scen::source_items(&ctx.corpus);
    for _ in 0..n / 3 {
        let item = rng.pick(&items);
        let mut c = scen::compile_case(item, true);
        let plans = ["full=100", "full=7", "at=20:EIO", "at=25:ENOSPC", "eintr=2", "chunk=7;eintr=3", "at=12:short=3", "at=2:EIO", "wchunk=1", "at=30:ESPIPE"];
        c.steps[0].plan = rng.pick(&plans).to_string();
        c.steps[0].key = rng.below(1000) + 1;
        cases.push(c);
    }
    // storage corruptions of bundled binaries
    let bins: Vec<_> = ctx.corpus.binaries().collect();
    for _ in 0..n - 2 * (n / 3) {
        let item = rng.pick(&bins);
        let mut c = scen::binary_roundtrip_case(item, &[], None, true);
        let data = ctx.corpus.tree.get(item.path.as_ref().unwrap()).unwrap();
        let all = corrupt::binary_faults(data, &[]);
        let f = rng.pick(&all);
        let idx = c.inputs.len() - 1;
        c.inputs[idx].corrupt = f.ops.clone();
        c.steps[0].key = rng.below(1000) + 1;
        cases.push(c);
    }
    cases
}

pub fn run(ctx: &Ctx, n: usize) -> i32 {
    let cases = sample_cases(ctx, n);
    let (d1, st1, _, _) = par_map(ctx, &cases, |w, _, c| digest_outcomes(&w.run_pipeline(c)));
    // second pass in reverse order: different workers, different sandbox directories
    let rev: Vec<Case> = cases.iter().rev().cloned().collect();
    let (mut d2, _st2, _, _) = par_map(ctx, &rev, |w, _, c| digest_outcomes(&w.run_pipeline(c)));
    d2.reverse();
    let mut mismatches = 0;
    for (i, (a, b)) in d1.iter().zip(d2.iter()).enumerate() {
        if a != b {
            mismatches += 1;
            if mismatches <= 10 {
                println!("MISMATCH case {}: {} plan={:?}", i, cases[i].name, cases[i].steps.iter().map(|s| s.plan.clone()).collect::<Vec<_>>());
            }
        }
    }
    let mut overall: u64 = 0;
    for d in &d1 {
        overall = overall.rotate_left(5) ^ d;
    }
    println!("selftest-determinism: cases={} runs={} (x2) mismatches={} digest={:016x} key-served-runs={}/{}", cases.len(), st1.runs, mismatches, overall, st1.probes.get("getrandom-served").cloned().unwrap_or(0), st1.runs);
    if mismatches > 0 {
        2
    } else {
        0
    }
}
