//! `trusim selftest-determinism`: the simulator must be a pure function of (case, binary, corpus).
//! A sample of cases of every kind (hash keys, I/O fault plans, storage corruptions, multi-step
//! pipelines) is executed twice, in different orders (hence on different workers / sandboxes), and
//! the full observable tuples and the shim's event logs are compared.  The printed digest must also
//! be identical across processes and worker counts (tools/selftest_determinism.sh checks that).

use crate::case::Case;
use crate::engine::*;
use crate::oracle::Tuple;
use crate::rng::{self, Rng};
use crate::{checks, corrupt, scen};

fn digest_outcomes(outs: &[crate::sandbox::Outcome]) -> u64 {
    let mut h: u64 = 0x1234_5678;
    for o in outs {
        let t = Tuple::of(o);
        let mut buf: Vec<u8> = vec![];
        buf.extend_from_slice(format!("{:?}{:?}", t.exit, t.signal).as_bytes());
        buf.extend_from_slice(&t.stdout);
        buf.extend_from_slice(&t.stderr);
        for (k, v) in &t.files {
            buf.extend_from_slice(k.as_bytes());
            buf.extend_from_slice(v);
        }
        h = h.rotate_left(7) ^ rng::hash_bytes(&buf) ^ o.trace_hash.rotate_left(29);
        if std::env::var("SELFTEST_VERBOSE").is_ok() {
            eprintln!("STEP tuple={:016x} trace={:016x} exit={:?} files={:?} stderr={}", rng::hash_bytes(&buf), o.trace_hash, t.exit, t.files.iter().map(|(k, v)| (k.clone(), rng::hash_bytes(v))).collect::<Vec<_>>(), String::from_utf8_lossy(&t.stderr).chars().take(80).collect::<String>());
        }
    }
    h
}

pub fn sample_cases(ctx: &Ctx, n: usize) -> Vec<Case> {
    let mut cases: Vec<Case> = vec![];
    let mut rng = Rng::new(rng::mix(ctx.seed, "selftest", 0));
    // pipelines under a drawn key
    let c19 = checks::c19::scenarios(ctx);
    for _ in 0..n / 3 {
        let mut c = rng.pick(&c19).clone();
        let key = rng.next() | 1;
        for s in &mut c.steps {
            s.key = key;
        }
        cases.push(c);
    }
    // fault plans on compile steps
    let items: Vec<_> = scen::source_items(&ctx.corpus);
    for _ in 0..n / 3 {
        let item = rng.pick(&items);
        let mut c = scen::compile_case(item, true);
        let plans = ["full=100", "full=7", "at=20:EIO", "at=25:ENOSPC", "eintr=2", "chunk=7;eintr=3", "at=12:short=3", "at=2:EIO", "wchunk=1", "at=30:ESPIPE"];
        c.steps[0].plan = rng.pick(&plans).to_string();
        c.steps[0].key = rng.below(1000) + 1;
        cases.push(c);
    }
    // storage corruptions of bundled binaries
    let bins: Vec<_> = ctx.corpus.binaries().collect();
    for _ in 0..n - 2 * (n / 3) {
        let item = rng.pick(&bins);
        let mut c = scen::binary_roundtrip_case(item, &[], None, true);
        let data = ctx.corpus.tree.get(item.path.as_ref().unwrap()).unwrap();
        let all = corrupt::binary_faults(data, &[]);
        let f = rng.pick(&all);
        let idx = c.inputs.len() - 1;
        c.inputs[idx].corrupt = f.ops.clone();
        c.steps[0].key = rng.below(1000) + 1;
        cases.push(c);
    }
    cases
}

pub fn run(ctx: &Ctx, n: usize) -> i32 {
    let cases = sample_cases(ctx, n);
    let (d1x, st1, _, _) = par_map(ctx, &cases, |w, _, c| {
        let o = w.run_pipeline(c);
        (digest_outcomes(&o), o.iter().map(|x| format!("{:?}/{:016x}/{}ev", x.exit, x.trace_hash, x.events.len())).collect::<Vec<_>>().join(","))
    });
    let d1: Vec<u64> = d1x.iter().map(|x| x.0).collect();
    // second pass in reverse order: different workers, different sandbox directories
    let rev: Vec<Case> = cases.iter().rev().cloned().collect();
    let (mut d2, _st2, _, _) = par_map(ctx, &rev, |w, _, c| digest_outcomes(&w.run_pipeline(c)));
    d2.reverse();
    let mut mismatches = 0;
    for (i, (a, b)) in d1.iter().zip(d2.iter()).enumerate() {
        if a != b {
            mismatches += 1;
            if mismatches <= 10 {
                println!("MISMATCH case {}: {} plan={:?}", i, cases[i].name, cases[i].steps.iter().map(|s| s.plan.clone()).collect::<Vec<_>>());
            }
        }
    }
    let mut overall: u64 = 0;
    for d in &d1 {
        overall = overall.rotate_left(5) ^ d;
    }
    // SELFTEST_DUMP=file: one line per case (digest, name), to find which case differs between processes
    if let Ok(f) = std::env::var("SELFTEST_DUMP") {
        let lines: Vec<String> = d1.iter().zip(cases.iter()).map(|(d, c)| format!("{:016x} {} {:?}", d, c.name, c.steps.iter().map(|s| s.plan.clone()).collect::<Vec<_>>())).zip(d1x.iter()).map(|(l, x)| format!("{} || {}", l, x.1)).collect();
        let _ = std::fs::write(f, lines.join("\n"));
    }
    println!("selftest-determinism: cases={} runs={} (x2) mismatches={} digest={:016x} key-served-runs={}/{}", cases.len(), st1.runs, mismatches, overall, st1.probes.get("getrandom-served").cloned().unwrap_or(0), st1.runs);
    if mismatches > 0 {
        2
    } else {
        0
    }
}
