//! C18 — debug info describes the file that was actually written.
//!
//! (1) The binary and the debug-info JSON are two outputs written in sequence: the complete
//!     single-fault write space over both (fail-stop oracle: exit 0 => both files identical to the
//!     fault-free pair).
//! (2) Consistency of the fault-free pair against the file on disk, through truth's independent
//!     reader: `decompile --show-instr-offsets --no-intrinsics` prints `/* (file_off) script_off */`
//!     per instruction and for the end of each script; per exported script the JSON's instruction
//!     offsets and end offset must equal the reader's, and every label offset must be one of them.

use crate::case::{Case, Step};
use crate::engine::*;
use crate::oracle::*;
use crate::report::CheckResult;
use crate::rng;
use crate::scen;
use serde_json::{json, Value};
use std::collections::BTreeMap;

fn s(x: &str) -> String {
    x.to_string()
}

/// Parse the reader's view: one (instruction offsets, end offset) per script, in file order.
pub fn parse_offsets_text(text: &str) -> Vec<(Vec<u64>, u64)> {
    let mut out = vec![];
    let mut cur: Vec<u64> = vec![];
    for line in text.lines() {
        let t = line.trim_start();
        let rest = match t.strip_prefix("/* (0x") {
            Some(r) => r,
            None => continue,
        };
        let (_file_off, rest) = match rest.split_once(") 0x") {
            Some(x) => x,
            None => continue,
        };
        let (script_off, rest) = match rest.split_once(" */") {
            Some(x) => x,
            None => continue,
        };
        let off = match u64::from_str_radix(script_off.trim(), 16) {
            Ok(o) => o,
            Err(_) => continue,
        };
        if rest.trim() == "}" {
            out.push((std::mem::take(&mut cur), off));
        } else {
            cur.push(off);
        }
    }
    out
}

/// Reference model of time labels, straight from the source text: inside a script / function body the
/// time starts at 0, `N:` sets it, `+N:` adds, `-N:` sets it to -N, and every other statement --
/// whatever its nesting -- inherits it.  Returns (byte position of a label's name -> time there) for
/// every `name:` label; bodies containing a time label with an expression are left out.
fn label_times_from_source(src: &str) -> BTreeMap<usize, i64> {
    #[derive(PartialEq, Clone, Debug)]
    enum T {
        Id(String),
        Int(i64),
        Str,
        P(char),
    }
    let b: Vec<char> = src.chars().collect();
    // byte offsets of each char
    let mut offs = Vec::with_capacity(b.len() + 1);
    let mut o = 0;
    for c in &b {
        offs.push(o);
        o += c.len_utf8();
    }
    let mut toks: Vec<(T, usize)> = vec![];
    let mut i = 0;
    while i < b.len() {
        let c = b[i];
        if c.is_whitespace() {
            i += 1;
        } else if c == '/' && b.get(i + 1) == Some(&'/') {
            while i < b.len() && b[i] != '\n' {
                i += 1;
            }
        } else if c == '/' && b.get(i + 1) == Some(&'*') {
            i += 2;
            while i + 1 < b.len() && !(b[i] == '*' && b[i + 1] == '/') {
                i += 1;
            }
            i += 2;
        } else if c == '#' {
            while i < b.len() && b[i] != '\n' {
                i += 1;
            }
        } else if c == '"' {
            let st = i;
            i += 1;
            while i < b.len() && b[i] != '"' {
                if b[i] == '\\' {
                    i += 1;
                }
                i += 1;
            }
            i += 1;
            toks.push((T::Str, offs[st]));
        } else if c.is_ascii_digit() {
            let st = i;
            let mut radix = 10;
            if c == '0' && matches!(b.get(i + 1), Some('x') | Some('X')) {
                radix = 16;
                i += 2;
            } else if c == '0' && matches!(b.get(i + 1), Some('b') | Some('B')) {
                radix = 2;
                i += 2;
            }
            let s2 = i;
            while i < b.len() && (b[i].is_ascii_hexdigit() && radix == 16 || b[i].is_ascii_digit() || b[i] == '_') {
                i += 1;
            }
            let txt: String = b[s2..i].iter().filter(|c| **c != '_').collect();
            let is_float = radix == 10 && (b.get(i) == Some(&'.') && b.get(i + 1).map_or(false, |d| d.is_ascii_digit()) || matches!(b.get(i), Some('f') | Some('F')));
            if is_float {
                while i < b.len() && (b[i].is_ascii_digit() || b[i] == '.' || b[i] == 'f' || b[i] == 'F') {
                    i += 1;
                }
                toks.push((T::P('F'), offs[st]));
            } else {
                toks.push((T::Int(i64::from_str_radix(&txt, radix).unwrap_or(i64::MAX)), offs[st]));
            }
        } else if c.is_alphabetic() || c == '_' {
            let st = i;
            while i < b.len() && (b[i].is_alphanumeric() || b[i] == '_') {
                i += 1;
            }
            toks.push((T::Id(b[st..i].iter().collect()), offs[st]));
        } else {
            toks.push((T::P(c), offs[i]));
            i += 1;
        }
    }
    let mut out = BTreeMap::new();
    let (mut depth, mut paren) = (0i32, 0i32);
    let mut active = false;
    let mut poisoned = false;
    let mut item_kw = String::new();
    let mut time: i64 = 0;
    let mut at_start = false;
    let mut pending: Vec<(usize, i64)> = vec![];
    let kw = ["if", "unless", "else", "while", "do", "loop", "times", "goto", "break", "return", "int", "float", "var", "const", "interrupt", "case", "default"];
    let mut k = 0;
    while k < toks.len() {
        let (t, pos) = toks[k].clone();
        let get = |j: usize| toks.get(j).map(|x| x.0.clone());
        match t {
            T::Id(ref s) if depth == 0 && ["script", "void", "int", "float", "meta", "entry", "const"].contains(&s.as_str()) => {
                item_kw = s.clone();
            }
            T::P('{') => {
                // difficulty label {"..."}:
                if active && at_start && get(k + 1) == Some(T::Str) && get(k + 2) == Some(T::P('}')) && get(k + 3) == Some(T::P(':')) {
                    k += 4;
                    continue;
                }
                if depth == 0 {
                    active = ["script", "void", "int", "float"].contains(&item_kw.as_str());
                    poisoned = false;
                    time = 0;
                    pending.clear();
                }
                depth += 1;
                at_start = true;
                k += 1;
                continue;
            }
            T::P('}') => {
                depth -= 1;
                if depth == 0 {
                    if active && !poisoned {
                        for (p, t) in pending.drain(..) {
                            out.insert(p, t);
                        }
                    }
                    active = false;
                    item_kw.clear();
                }
                at_start = true;
                k += 1;
                continue;
            }
            T::P(';') => {
                at_start = paren == 0;
                k += 1;
                continue;
            }
            T::P('(') | T::P('[') => paren += 1,
            T::P(')') | T::P(']') => paren -= 1,
            _ => {}
        }
        if active && at_start && paren == 0 {
            match (&t, get(k + 1), get(k + 2)) {
                (T::P('+'), Some(T::Int(n)), Some(T::P(':'))) => {
                    time += n;
                    k += 3;
                    continue;
                }
                (T::P('-'), Some(T::Int(n)), Some(T::P(':'))) => {
                    time = -n;
                    k += 3;
                    continue;
                }
                (T::Int(n), Some(T::P(':')), _) => {
                    time = *n;
                    k += 2;
                    continue;
                }
                (T::P('+'), Some(T::P('(')), _) => poisoned = true,
                (T::Id(name), Some(T::P('[')), _) if name == "interrupt" => {
                    // interrupt[EXPR]:  -- a label-like statement; what follows is a statement start again
                    let mut j = k + 1;
                    let mut d = 0;
                    while j < toks.len() {
                        match toks[j].0 {
                            T::P('[') => d += 1,
                            T::P(']') => {
                                d -= 1;
                                if d == 0 {
                                    break;
                                }
                            }
                            _ => {}
                        }
                        j += 1;
                    }
                    if get(j + 1) == Some(T::P(':')) {
                        k = j + 2;
                        continue;
                    }
                }
                (T::Id(name), Some(T::P(':')), _) if !kw.contains(&name.as_str()) => {
                    pending.push((pos, time));
                    k += 2;
                    continue;
                }
                _ => {}
            }
        }
        at_start = false;
        k += 1;
    }
    out
}

/// "every local's register is the register that the emitted instructions use for it, and every
/// constant's value is the value the compiler used", judged against the file on disk through the
/// reader's text:
///  * a local declared with an initialiser (`int x = EXPR;`): the last instruction whose source span
///    contains the local's name is the one that stores into it, so its first argument, as the reader
///    prints it, must be the register the debug info binds the local to;
///  * a statement that is a plain call passing a named constant (`ins_701(GC1);`): the argument the
///    reader finds at that position must be the value the debug info records for the constant.
/// Everything that does not have exactly these shapes is skipped (counted), never judged.
fn check_locals_and_consts(w: &mut Worker, case: &Case, doc: &Value, scripts: &[Value], from_json: &[(Vec<u64>, u64)], from_reader: &[(Vec<u64>, u64)], reader_text: &str) -> Vec<Violation> {
    use crate::checks::fields::{parse_doc, Val};
    let mut v = vec![];
    let src: Vec<u8> = match crate::case::materialise(&case.inputs, &w.ctx.corpus).into_iter().find(|(p, _)| p == scen::SRC) {
        Some((_, d)) => d.as_ref().clone(),
        None => return v,
    };
    let src_id = doc["source-files"].as_array().and_then(|a| a.iter().find(|f| f["name"] == scen::SRC).and_then(|f| f["id"].as_u64()));
    let src_id = match src_id {
        Some(i) => i,
        None => return v,
    };
    let rdoc = match parse_doc(reader_text) {
        Ok(d) => d,
        Err(_) => {
            w.stats.probe("debuginfo:reader-text-not-flat(skip locals/consts)");
            return v;
        }
    };
    if rdoc.scripts.len() != from_reader.len() {
        return v;
    }
    // register aliases the reader may print: !gvar_names of the mapfiles in the sandbox
    let mut alias: BTreeMap<String, i64> = BTreeMap::new();
    for (p, d) in crate::case::materialise(&case.inputs, &w.ctx.corpus) {
        if !p.starts_with("mapfile-") {
            continue;
        }
        let mut in_gvars = false;
        for line in String::from_utf8_lossy(&d).lines() {
            let line = line.trim();
            if line.starts_with('!') {
                in_gvars = line == "!gvar_names";
            } else if in_gvars {
                if let Some((a, b)) = line.split_once(' ') {
                    if let Ok(n) = a.parse::<i64>() {
                        alias.insert(b.trim().to_string(), n);
                    }
                }
            }
        }
    }
    let reg_of = |x: &Val| -> Option<i64> {
        match x {
            Val::Ident(s) => {
                let t = s.trim_start_matches('$').trim_start_matches('%');
                if let Some(r) = t.strip_prefix("REG[").and_then(|r| r.strip_suffix(']')) {
                    r.parse::<i64>().ok()
                } else {
                    alias.get(t).copied()
                }
            }
            _ => None,
        }
    };
    let span_of = |x: &Value| -> Option<(usize, usize)> {
        let a = x.as_array()?;
        if a.len() == 3 && a[0].as_u64() == Some(src_id) {
            Some((a[1].as_u64()? as usize, a[2].as_u64()? as usize))
        } else {
            None
        }
    };
    let label_times = label_times_from_source(&String::from_utf8_lossy(&src));
    let consts: BTreeMap<String, Value> = doc["consts"].as_array().map(|a| a.iter().filter(|c| span_of(&c["name-span"]).is_some()).filter_map(|c| c["name"].as_str().map(|n| (n.to_string(), c["value"].clone()))).collect()).unwrap_or_default();
    for (j, sc) in scripts.iter().enumerate() {
        // the reader's script with the same offsets (unique), instruction k <-> instruction k
        let cands: Vec<usize> = (0..from_reader.len()).filter(|&r| from_reader[r] == from_json[j]).collect();
        if cands.len() != 1 {
            continue;
        }
        let rs = &rdoc.scripts[cands[0]];
        let instrs = sc["instrs"].as_array().cloned().unwrap_or_default();
        if rs.instrs.len() != instrs.len() {
            continue;
        }
        // ---- label times against the reference model of the source text
        for l in sc["labels"].as_array().cloned().unwrap_or_default() {
            if let (Some(name), Some(sp), Some(t)) = (l["name"].as_str(), span_of(&l["span"]), l["time"].as_i64()) {
                if src.get(sp.0..sp.0 + name.len()) != Some(name.as_bytes()) {
                    continue;
                }
                match label_times.get(&sp.0) {
                    Some(&want) if want == t => w.stats.probe("debuginfo:label-time-cross-checked"),
                    Some(&want) => v.push(Violation { class: "debuginfo:label-time".into(), detail: format!("script {:?}: label '{}' has time {} in the debug info; the time labels of the source put it at {}", sc["name"], name, t, want) }),
                    None => w.stats.probe("debuginfo:label-not-in-model(skip)"),
                }
            }
        }
        // ---- locals
        for l in sc["locals"].as_array().cloned().unwrap_or_default() {
            let (name, ns, reg) = match (l["name"].as_str(), span_of(&l["name-span"]), l["bound-to"]["reg"].as_i64()) {
                (Some(n), Some(s), Some(r)) => (n, s, r),
                _ => continue,
            };
            if src.get(ns.0..ns.1) != Some(name.as_bytes()) {
                continue; // a synthesised local (loop counter)
            }
            // declaration with initialiser: "<type> ... name = ..." -- the text after the name starts with '='
            let after = String::from_utf8_lossy(&src[ns.1..(ns.1 + 8).min(src.len())]).trim_start().to_string();
            if !after.starts_with('=') || after.starts_with("==") {
                continue;
            }
            let last = instrs.iter().enumerate().filter(|(_, i)| span_of(&i["span"]).map_or(false, |(a, b)| a <= ns.0 && ns.1 <= b)).map(|(k, _)| k).last();
            let k = match last {
                Some(k) => k,
                None => continue,
            };
            match rs.instrs[k].args.first().and_then(|x| reg_of(x)) {
                Some(r) if r == reg => w.stats.probe("debuginfo:local-register-cross-checked"),
                Some(r) => v.push(Violation { class: "debuginfo:local-register".into(), detail: format!("script {:?}: local '{}' is bound to register {} in the debug info, but the instruction that initialises it ({} at offset {}) stores into register {}", sc["name"], name, reg, rs.instrs[k].name, from_json[j].0[k], r) }),
                None => w.stats.probe("debuginfo:local-initialiser-not-recognised(skip)"),
            }
        }
        // ---- constants used as plain call arguments
        for (k, i) in instrs.iter().enumerate() {
            let (a, b) = match span_of(&i["span"]) {
                Some(x) => x,
                None => continue,
            };
            let text = match src.get(a..b) {
                Some(t) => String::from_utf8_lossy(t).into_owned(),
                None => continue,
            };
            // parse "name(args)" with the flat parser by wrapping it into a script
            let stmt = if text.trim_end().ends_with(';') { text.clone() } else { format!("{};", text) };
            let call = match parse_doc(&format!("script x {{ {} }}", stmt)) {
                Ok(d) if d.scripts.len() == 1 && d.scripts[0].instrs.len() == 1 => d.scripts[0].instrs[0].clone(),
                _ => continue,
            };
            if call.args.len() != rs.instrs[k].args.len() || !call.name.starts_with("ins_") {
                continue;
            }
            for (ai, arg) in call.args.iter().enumerate() {
                if let Val::Ident(n) = arg {
                    if let Some(val) = consts.get(n) {
                        let want: Option<Val> = if let Some(x) = val["int"].as_i64() { Some(Val::Int(x)) } else { val["float"].as_f64().map(|f| Val::Float(f as f32)) };
                        let got = &rs.instrs[k].args[ai];
                        match (&want, got) {
                            (Some(Val::Int(x)), Val::Int(y)) if (*x as i32) == (*y as i32) => w.stats.probe("debuginfo:const-value-cross-checked"),
                            (Some(Val::Float(x)), Val::Float(y)) if x.to_bits() == y.to_bits() => w.stats.probe("debuginfo:const-value-cross-checked"),
                            (Some(Val::Int(_)), Val::Int(_)) | (Some(Val::Float(_)), Val::Float(_)) => v.push(Violation { class: "debuginfo:const-value".into(), detail: format!("script {:?}: const '{}' has value {} in the debug info, but `{}` was compiled with {:?} at argument {}", sc["name"], n, val, text.trim(), got, ai) }),
                            _ => w.stats.probe("debuginfo:const-use-not-comparable(skip)"),
                        }
                    }
                }
            }
        }
    }
    v
}

pub fn oracle_debuginfo(w: &mut Worker, case: &Case) -> Vec<Violation> {
    let all = w.golden(case);
    let mut v = vec![];
    // meta.compile = index of the compile step (default 0); the reader step follows it
    let k = case.meta.get("compile").and_then(|x| x.as_u64()).unwrap_or(0) as usize;
    if all.len() <= k || all[..=k].iter().any(|o| !o.ok()) {
        w.stats.probe("debuginfo:compile-failed(skip)");
        return v;
    }
    let outs = &all[k..];
    let js = match outs[0].files.get(scen::DBG) {
        Some(j) => j,
        None => {
            v.push(Violation { class: "debuginfo:missing".into(), detail: "compile exited 0 without writing the debug info file".into() });
            return v;
        }
    };
    let doc: Value = match serde_json::from_slice(js) {
        Ok(d) => d,
        Err(e) => {
            v.push(Violation { class: "debuginfo:unparseable".into(), detail: format!("{}", e) });
            return v;
        }
    };
    let scripts = doc.get("exported-scripts").and_then(|s| s.as_array()).cloned().unwrap_or_default();
    let mut from_json: Vec<(Vec<u64>, u64)> = vec![];
    for sc in &scripts {
        let offs: Vec<u64> = sc.get("instrs").and_then(|i| i.as_array()).map(|a| a.iter().filter_map(|i| i.get("offset").and_then(|o| o.as_u64())).collect()).unwrap_or_default();
        let end = sc.get("end-offset").and_then(|e| e.as_u64()).unwrap_or(u64::MAX);
        // internal consistency: strictly increasing offsets below the end, labels on boundaries
        if offs.windows(2).any(|p| p[0] >= p[1]) || offs.last().map_or(false, |l| *l >= end) {
            v.push(Violation { class: "debuginfo:offsets-not-increasing".into(), detail: format!("script {:?}: {:?} end {}", sc.get("name"), offs, end) });
        }
        for l in sc.get("labels").and_then(|l| l.as_array()).cloned().unwrap_or_default() {
            let lo = l.get("offset").and_then(|o| o.as_u64()).unwrap_or(u64::MAX);
            if lo != end && !offs.contains(&lo) {
                v.push(Violation { class: "debuginfo:label".into(), detail: format!("script {:?}: label {:?} at offset {} is not an instruction boundary ({:?}, end {})", sc.get("name"), l.get("name"), lo, offs, end) });
            }
        }
        from_json.push((offs, end));
    }
    w.stats.nontrivial.insert(rng::hash_bytes(case.name.as_bytes()));
    if outs.len() < 2 || !outs[1].ok() {
        w.stats.probe("debuginfo:reader-failed(skip)");
        return v;
    }
    let text = String::from_utf8_lossy(&outs[1].stdout).into_owned();
    let text = if text.is_empty() { outs[1].files.get(scen::DEC).or_else(|| outs[1].files.get("offsets.txt")).map(|b| String::from_utf8_lossy(b).into_owned()).unwrap_or_default() } else { text };
    let mut from_reader = parse_offsets_text(&text);
    if from_reader.len() != from_json.len() {
        w.stats.probe("debuginfo:script-count-differs(skip)");
        return v;
    }
    w.stats.probe("debuginfo:cross-checked");
    w.stats.probe_n("debuginfo:scripts-cross-checked", from_json.len() as u64);
    w.stats.probe_n("debuginfo:instrs-cross-checked", from_json.iter().map(|s| s.0.len() as u64).sum());
    let mut a = from_json.clone();
    // MSG scripts have no stored length: a script ends at an all-zero marker, and the reader treats
    // a marker that is followed by more readable data (e.g. the marker of an adjacent *empty* script)
    // as an ordinary `ins_0` instruction.  So for MSG the reader may legitimately see one extra
    // instruction exactly at the debug info's end offset.  Accept that shape (and only that).
    if case.steps[k].argv[0] == "trumsg" {
        let mut n = 0;
        for r in from_reader.iter_mut() {
            if let Some(&last) = r.0.last() {
                let mut shorter = r.0.clone();
                shorter.pop();
                if !a.contains(&(r.0.clone(), r.1)) && a.contains(&(shorter.clone(), last)) {
                    *r = (shorter, last);
                    n += 1;
                }
            }
        }
        if n > 0 {
            w.stats.probe_n("debuginfo:msg-end-marker-read-as-instruction(tolerated)", n);
        }
    }
    // positional part: ANM scripts and old-ECL subs are exported with their index in the output
    // file, and the reader lists scripts in file order (ECL: timelines first, then subs), so the
    // script that the debug info calls number i must be the i-th one the reader finds
    {
        let n_timelines = scripts.iter().filter(|sc| sc["exported-as"]["type"] == "scl-script").count();
        let mut seen: Vec<usize> = vec![];
        for (j, sc) in scripts.iter().enumerate() {
            let ty = sc["exported-as"]["type"].as_str().unwrap_or("");
            let pos = match (ty, sc["exported-as"]["index"].as_u64()) {
                ("anm-script", Some(i)) => Some(i as usize),
                ("scl-script", Some(i)) => Some(i as usize),
                ("olde-ecl-sub", Some(i)) => Some(n_timelines + i as usize),
                _ => None,
            };
            if let Some(pos) = pos {
                if seen.contains(&pos) {
                    v.push(Violation { class: "debuginfo:script-index".into(), detail: format!("two exported scripts claim {} index {}", ty, sc["exported-as"]["index"]) });
                    break;
                }
                seen.push(pos);
                match from_reader.get(pos) {
                    Some(r) if *r == a[j] => {}
                    Some(r) => {
                        v.push(Violation { class: "debuginfo:script-index".into(), detail: format!("debug info: {} #{} ({:?}) has offsets {:?} end {}; script #{} in the file has {:?} end {}", ty, sc["exported-as"]["index"], sc.get("name"), a[j].0, a[j].1, pos, r.0, r.1) });
                        break;
                    }
                    None => {}
                }
            }
        }
        if !seen.is_empty() && v.is_empty() {
            w.stats.probe("debuginfo:script-indices-cross-checked");
        }
    }
    if v.is_empty() && case.name.starts_with("debuginfo:") {
        v.extend(check_locals_and_consts(w, case, &doc, &scripts, &a, &from_reader, &text));
    }
    a.sort();
    from_reader.sort();
    if a != from_reader {
        let (x, y) = a.iter().zip(from_reader.iter()).find(|(x, y)| x != y).map(|(x, y)| (x.clone(), y.clone())).unwrap();
        let class = if x.0 != y.0 { "debuginfo:offsets" } else { "debuginfo:end" };
        v.push(Violation { class: class.into(), detail: format!("debug info says {:?} end {}; the reader finds {:?} end {}", x.0, x.1, y.0, y.1) });
    }
    v
}

pub fn run(ctx: &Ctx) -> CheckResult {
    let quick = ctx.tier == Tier::Quick;
    let mut bases: Vec<Case> = vec![];
    for item in scen::source_items(&ctx.corpus) {
        let mut c = scen::compile_case(item, false);
        c.steps[0].argv.extend([s("--output-debug-info"), s(scen::DBG)]);
        if item.cmd == "truanm" {
            // (with the other auxiliary output requested too)
            c.steps[0].argv.extend([s("--output-thecl-defs"), s("defs.h")]);
        }
        // the independent reader
        let mut argv = vec![item.cmd.clone(), s("decompile"), s("-g"), item.game.clone(), s(scen::OUT), s("-o"), s(scen::DEC)];
        for i in 0..(item.mapfiles.len() + item.compile_mapfiles.len()) {
            argv.extend([s("-m"), format!("mapfile-{}", i + 1)]);
        }
        argv.extend(item.compile_args.iter().filter(|a| *a == "--mission" || *a == "--ending").cloned());
        argv.extend([s("--show-instr-offsets"), s("--no-intrinsics")]);
        c.steps.push(Step::new(argv));
        c.property = "C18".into();
        c.oracle = "debuginfo".into();
        c.name = format!("debuginfo:{}", item.id);
        bases.push(c);
    }
    // the same cross-check on real-game-like instruction streams: every bundled binary, decompiled,
    // recompiled with debug info, read back
    let mut bin_cases: Vec<Case> = vec![];
    for item in ctx.corpus.binaries() {
        let mut c = scen::binary_roundtrip_case(item, &[], None, true);
        c.steps[1].argv.extend([s("--output-debug-info"), s(scen::DBG)]);
        let mut argv = vec![item.cmd.clone(), s("decompile"), s("-g"), item.game.clone(), s(scen::OUT2), s("-o"), s("offsets.txt")];
        argv.extend(scen::msg_mode_flags(item));
        if let Some(m) = &item.mapfile {
            argv.extend([s("-m"), m.clone()]);
        }
        argv.extend([s("--show-instr-offsets"), s("--no-intrinsics")]);
        c.steps.push(Step::new(argv));
        c.property = "C18".into();
        c.oracle = "debuginfo".into();
        c.name = format!("debuginfo-of-bundled:{}", item.id);
        c.meta = json!({"compile": 1});
        bin_cases.push(c);
    }
    let (_r, st0, f0, h0) = par_map(ctx, &bin_cases, |w, _, c| w.judge(c));
    let (compiles, mut stats, mut findings, mut herr) = par_map(ctx, &bases, |w, _, c| {
        w.judge(c);
        w.golden(c).get(0).map_or(false, |o| o.ok())
    });

    stats.merge(st0);
    findings.extend(f0);
    herr.extend(h0);

    // initial-state variation: binary and debug-info paths already exist with longer content
    let mut stale_cases: Vec<Case> = vec![];
    for (i, c) in bases.iter().enumerate() {
        if !compiles[i] || (quick && i % 6 != (ctx.seed % 6) as usize && !c.name.contains("extra/")) {
            continue;
        }
        let mut sc = c.clone();
        sc.steps.truncate(1);
        sc.oracle = "stale".into();
        sc.name = format!("{} [stale outputs]", c.name);
        let junk: Vec<u8> = (0..90000u32).map(|k| b'a' + (k % 23) as u8).collect();
        sc.inputs.push(crate::case::Input::bytes(scen::OUT, junk.clone()));
        sc.inputs.push(crate::case::Input::bytes(scen::DBG, junk));
        sc.meta = json!({"stale": [scen::OUT, scen::DBG]});
        stale_cases.push(sc);
    }
    let (_r, st_s, f_s, h_s) = par_map(ctx, &stale_cases, |w, _, c| {
        w.judge(c);
        // ... and with what an interrupted earlier run of the same command leaves behind: both outputs
        // exist as proper prefixes of themselves, or as empty files
        let mut fresh = c.clone();
        fresh.inputs.retain(|i| i.path != scen::OUT && i.path != scen::DBG);
        fresh.name = fresh.name.replace(" [stale outputs]", "");
        for empty in [false, true] {
            if let Some(pc) = prefix_stale_case(w, &fresh, empty) {
                w.judge(&pc);
            }
        }
    });
    stats.merge(st_s);
    findings.extend(f_s);
    herr.extend(h_s);

    // fault campaign on the compile step (both outputs)
    let mut by_class: BTreeMap<String, Vec<usize>> = BTreeMap::new();
    for (i, c) in bases.iter().enumerate() {
        if compiles[i] {
            by_class.entry(crate::checks::c03::format_class(c)).or_default().push(i);
        }
    }
    let mut jobs: Vec<FaultJob> = vec![];
    for (cls, idxs) in &by_class {
        let rot = rng::mix(ctx.seed, cls, 18) as usize;
        let mut chosen: Vec<usize> = if quick { (0..idxs.len().min(2)).map(|k| idxs[(rot + k * 5) % idxs.len()]).collect() } else { idxs.clone() };
        for &i in idxs {
            if bases[i].name.contains("extra/") && !chosen.contains(&i) {
                chosen.push(i);
            }
        }
        chosen.sort();
        chosen.dedup();
        for (k, &i) in chosen.iter().enumerate() {
            let big = bases[i].name.contains("extra/big");
            let budgets = if k == 0 && !big && !quick { Budgets::Complete } else if quick { Budgets::BoundariesPlus(if k == 0 { 16 } else { 0 }) } else { Budgets::BoundariesPlus(32) };
            let mut base = bases[i].clone();
            base.steps.truncate(1);
            base.name = format!("compile+debuginfo:{}", &bases[i].name["debuginfo:".len()..]);
            jobs.push(FaultJob { base, step: 0, space: FaultSpace { read_side: false, write_side: true, meta_side: false, budgets, seed: rng::mix(ctx.seed, &bases[i].name, 2) }, noise: k == 0 || !quick, max_variants: 0 });
        }
    }
    let camp = run_fault_campaign(ctx, &jobs);
    stats.merge(camp.stats);
    findings.extend(camp.findings);
    herr.extend(camp.harness_errors);

    let mut extra = BTreeMap::new();
    extra.insert("compile_scenarios".into(), json!(bases.len()));
    extra.insert("compilable".into(), json!(compiles.iter().filter(|c| **c).count()));
    extra.insert("fault_jobs".into(), json!(jobs.len()));
    extra.insert("fault_variants".into(), json!(camp.variants));
    let mut samples = camp.samples;
    samples.push(json!({"cross_check": bases.get(0).map(|c| c.steps.iter().map(|s| s.argv.join(" ")).collect::<Vec<_>>())}));
    CheckResult {
        property: "C18".into(),
        level: "fault_enumeration",
        stats,
        findings,
        harness_errors: herr,
        rule: "(a) fault campaign over the compile step writing binary + debug-info JSON: one run per (tracked create/write/lseek event x errno), short write, disk-full budget (write-call boundaries; every byte for one scenario per format class in thorough), EINTR period, chunking; non-trivial = the fault fired (shim log); distinct = (scenario, plan). (b) cross-check of every compilable scenario's fault-free JSON against truth's reader on the written file".into(),
        samples,
        extra,
        exhaustive: false,
        assumptions: vec![
            "the reader (llir::read_instrs via decompile --show-instr-offsets) is independent of the lowerer's offset bookkeeping".into(),
            "label times, locals' registers and const values are compared only against the fault-free run (faults, hash keys via C19), not against an independent reference".into(),
        ],
    }
}
