//! C03, "field for field" clause: a seeded workload of *flat* programs (raw instructions with
//! mapfile signatures, absolute time labels, difficulty labels, boundary values in every numeric
//! field, strings of boundary lengths, metadata with boundary values) is compiled and read back with
//! truth's rawest decompile; a small independent parser turns both the source the harness wrote and
//! the text truth read back into the same document model, and the oracle demands
//!
//!     compile exits 0  =>  every instruction (time, opcode, difficulty, arguments) and every
//!                          requested metadata scalar reads back with the requested value.
//!
//! A compile that fails with an error is always acceptable ("if a requested value does not fit the
//! field that stores it, compilation fails with a diagnostic instead of storing a different value").
//! There is no fault or schedule in this part: it is a reference-model oracle over a seeded workload,
//! run through the same pipeline machinery as everything else (DESIGN.md §9.8).

use crate::case::{Case, Input, Step};
use crate::engine::*;
use crate::oracle::*;
use crate::rng::{self, Rng};
use serde_json::json;

// ------------------------------------------------------------------------------------------------
// document model + parser for the flat subset of truth's script syntax

#[derive(Clone, Debug, PartialEq)]
pub enum Val {
    Int(i64),
    Float(f32),
    Str(String),
    Ident(String),
    Obj(Vec<(String, Val)>),
    Arr(Vec<Val>),
}

#[derive(Clone, Debug)]
pub struct Instr {
    pub time: i64,
    pub diff: Option<String>,
    pub name: String,
    pub args: Vec<Val>,
}

#[derive(Clone, Debug)]
pub struct Script {
    pub kind: String,
    pub id: Option<i64>,
    pub name: String,
    pub instrs: Vec<Instr>,
}

#[derive(Clone, Debug, Default)]
pub struct Doc {
    pub metas: Vec<(String, Val)>,
    pub scripts: Vec<Script>,
}

#[derive(Clone, Debug, PartialEq)]
enum Tok {
    Ident(String),
    Int(i64),
    Float(f32),
    Str(String),
    P(char),
}

fn tokenize(text: &str) -> Result<Vec<Tok>, String> {
    let b: Vec<char> = text.chars().collect();
    let mut i = 0;
    let mut out = vec![];
    while i < b.len() {
        let c = b[i];
        if c.is_whitespace() {
            i += 1;
        } else if c == '/' && i + 1 < b.len() && b[i + 1] == '/' {
            while i < b.len() && b[i] != '\n' {
                i += 1;
            }
        } else if c == '/' && i + 1 < b.len() && b[i + 1] == '*' {
            i += 2;
            while i + 1 < b.len() && !(b[i] == '*' && b[i + 1] == '/') {
                i += 1;
            }
            i += 2;
        } else if c == '#' {
            // #pragma ... to end of line
            while i < b.len() && b[i] != '\n' {
                i += 1;
            }
        } else if c == '"' {
            let mut s = String::new();
            i += 1;
            loop {
                if i >= b.len() {
                    return Err("unterminated string".into());
                }
                match b[i] {
                    '"' => {
                        i += 1;
                        break;
                    }
                    '\\' => {
                        i += 1;
                        let e = *b.get(i).ok_or("bad escape")?;
                        s.push(match e {
                            'n' => '\n',
                            'r' => '\r',
                            '0' => '\0',
                            x => x,
                        });
                        i += 1;
                    }
                    x => {
                        s.push(x);
                        i += 1;
                    }
                }
            }
            out.push(Tok::Str(s));
        } else if c.is_ascii_digit() {
            let st = i;
            if c == '0' && i + 1 < b.len() && (b[i + 1] == 'x' || b[i + 1] == 'X' || b[i + 1] == 'b' || b[i + 1] == 'B') {
                let radix = if b[i + 1] == 'x' || b[i + 1] == 'X' { 16 } else { 2 };
                i += 2;
                let s2 = i;
                while i < b.len() && (b[i].is_ascii_hexdigit() || b[i] == '_') {
                    i += 1;
                }
                let t: String = b[s2..i].iter().filter(|c| **c != '_').collect();
                let v = u64::from_str_radix(&t, radix).map_err(|e| format!("bad int {}: {}", t, e))?;
                // truth reads hex/binary literals as 32-bit patterns
                out.push(Tok::Int(if v > i32::MAX as u64 && v <= u32::MAX as u64 { v as u32 as i32 as i64 } else { v as i64 }));
                continue;
            }
            while i < b.len() && (b[i].is_ascii_digit() || b[i] == '_') {
                i += 1;
            }
            let mut is_float = false;
            if i + 1 < b.len() && b[i] == '.' && b[i + 1].is_ascii_digit() {
                is_float = true;
                i += 1;
                while i < b.len() && b[i].is_ascii_digit() {
                    i += 1;
                }
            }
            let t: String = b[st..i].iter().filter(|c| **c != '_').collect();
            if i < b.len() && (b[i] == 'f' || b[i] == 'F') {
                is_float = true;
                i += 1;
            }
            if is_float {
                out.push(Tok::Float(t.parse::<f32>().map_err(|e| format!("bad float {}: {}", t, e))?));
            } else {
                out.push(Tok::Int(t.parse::<i64>().map_err(|e| format!("bad int {}: {}", t, e))?));
            }
        } else if c.is_alphabetic() || c == '_' {
            let st = i;
            while i < b.len() && (b[i].is_alphanumeric() || b[i] == '_') {
                i += 1;
            }
            out.push(Tok::Ident(b[st..i].iter().collect()));
        } else {
            out.push(Tok::P(c));
            i += 1;
        }
    }
    Ok(out)
}

struct P {
    t: Vec<Tok>,
    i: usize,
}

impl P {
    fn peek(&self) -> Option<&Tok> {
        self.t.get(self.i)
    }
    fn peek_at(&self, k: usize) -> Option<&Tok> {
        self.t.get(self.i + k)
    }
    fn next(&mut self) -> Result<Tok, String> {
        let t = self.t.get(self.i).cloned().ok_or_else(|| "unexpected end".to_string())?;
        self.i += 1;
        Ok(t)
    }
    fn eat(&mut self, c: char) -> bool {
        if self.peek() == Some(&Tok::P(c)) {
            self.i += 1;
            true
        } else {
            false
        }
    }
    fn expect(&mut self, c: char) -> Result<(), String> {
        if self.eat(c) {
            Ok(())
        } else {
            Err(format!("expected '{}' at token {} ({:?})", c, self.i, self.peek()))
        }
    }

    fn value(&mut self) -> Result<Val, String> {
        match self.next()? {
            Tok::P('-') => match self.next()? {
                Tok::Int(v) => Ok(Val::Int(-v)),
                Tok::Float(f) => Ok(Val::Float(-f)),
                t => Err(format!("unexpected {:?} after '-'", t)),
            },
            Tok::Int(v) => Ok(Val::Int(v)),
            Tok::Float(f) => Ok(Val::Float(f)),
            Tok::Str(s) => Ok(Val::Str(s)),
            Tok::Ident(s) => match s.as_str() {
                "true" => Ok(Val::Int(1)),
                "false" => Ok(Val::Int(0)),
                _ => {
                    let mut name = s;
                    // call-like or indexed arguments (offsetof(label), REG[10000], Enum.Const): opaque
                    while matches!(self.peek(), Some(Tok::P('(')) | Some(Tok::P('[')) | Some(Tok::P('.'))) {
                        let mut depth = 0i32;
                        loop {
                            let t = self.next()?;
                            match &t {
                                Tok::P('(') | Tok::P('[') => depth += 1,
                                Tok::P(')') | Tok::P(']') => depth -= 1,
                                _ => {}
                            }
                            name.push_str(&match &t {
                                Tok::Ident(x) => x.clone(),
                                Tok::Int(x) => x.to_string(),
                                Tok::Float(x) => x.to_string(),
                                Tok::Str(x) => format!("{:?}", x),
                                Tok::P(c) => c.to_string(),
                            });
                            if depth <= 0 && !matches!(t, Tok::P('.')) {
                                break;
                            }
                        }
                    }
                    // variant syntax of metadata (`rect {...}`, `strip {...}`, `objname {pos: ...}`): an
                    // object whose first field records the variant's name
                    if matches!(self.peek(), Some(Tok::P('{'))) {
                        return match self.value()? {
                            Val::Obj(mut fields) => {
                                fields.insert(0, ("variant-name".to_string(), Val::Ident(name)));
                                Ok(Val::Obj(fields))
                            }
                            other => Ok(other),
                        };
                    }
                    Ok(Val::Ident(name))
                }
            },
            Tok::P('{') => {
                let mut fields = vec![];
                loop {
                    if self.eat('}') {
                        break;
                    }
                    let key = match self.next()? {
                        Tok::Ident(s) => s,
                        Tok::Int(v) => v.to_string(),
                        Tok::Str(s) => s,
                        t => return Err(format!("bad key {:?}", t)),
                    };
                    self.expect(':')?;
                    let v = self.value()?;
                    fields.push((key, v));
                    if !self.eat(',') {
                        self.expect('}')?;
                        break;
                    }
                }
                Ok(Val::Obj(fields))
            }
            Tok::P('[') => {
                let mut xs = vec![];
                loop {
                    if self.eat(']') {
                        break;
                    }
                    xs.push(self.value()?);
                    if !self.eat(',') {
                        self.expect(']')?;
                        break;
                    }
                }
                Ok(Val::Arr(xs))
            }
            Tok::P(c) if (c == '$' || c == '%') && matches!(self.peek(), Some(Tok::Ident(_))) => match self.value()? {
                Val::Ident(x) => Ok(Val::Ident(format!("{}{}", c, x))),
                other => Ok(other),
            },
            // pseudo-args, anything non-flat: an opaque token that never equals a request
            Tok::P(c) => {
                let mut s = String::from(c);
                // swallow up to the next ',' or ')' at depth 0
                let mut depth = 0;
                while let Some(t) = self.peek() {
                    match t {
                        Tok::P('(') | Tok::P('[') => depth += 1,
                        Tok::P(')') | Tok::P(']') if depth > 0 => depth -= 1,
                        Tok::P(')') | Tok::P(',') if depth == 0 => break,
                        _ => {}
                    }
                    s.push_str(&format!("{:?}", t));
                    self.i += 1;
                }
                Ok(Val::Ident(s))
            }
        }
    }

    fn stmts(&mut self) -> Result<Vec<Instr>, String> {
        let mut out = vec![];
        let mut time: i64 = 0;
        let mut diff: Option<String> = None;
        loop {
            if self.eat('}') {
                return Ok(out);
            }
            // difficulty label {"..."}:
            if self.peek() == Some(&Tok::P('{')) {
                if let (Some(Tok::Str(s)), Some(Tok::P('}')), Some(Tok::P(':'))) = (self.peek_at(1), self.peek_at(2), self.peek_at(3)) {
                    diff = Some(s.clone());
                    self.i += 4;
                    continue;
                }
                return Err("block statement (not flat)".into());
            }
            // time labels
            if self.peek() == Some(&Tok::P('+')) {
                if let (Some(Tok::Int(v)), Some(Tok::P(':'))) = (self.peek_at(1), self.peek_at(2)) {
                    time += *v;
                    self.i += 3;
                    continue;
                }
            }
            if self.peek() == Some(&Tok::P('-')) {
                if let (Some(Tok::Int(v)), Some(Tok::P(':'))) = (self.peek_at(1), self.peek_at(2)) {
                    time = -*v;
                    self.i += 3;
                    continue;
                }
            }
            if let (Some(Tok::Int(v)), Some(Tok::P(':'))) = (self.peek(), self.peek_at(1)) {
                time = *v;
                self.i += 2;
                continue;
            }
            match self.next()? {
                Tok::Ident(name) => {
                    if self.eat(':') {
                        continue; // a label
                    }
                    if !self.eat('(') {
                        return Err(format!("statement starting with {} is not flat", name));
                    }
                    let mut args = vec![];
                    loop {
                        if self.eat(')') {
                            break;
                        }
                        args.push(self.value()?);
                        if !self.eat(',') {
                            self.expect(')')?;
                            break;
                        }
                    }
                    self.expect(';')?;
                    out.push(Instr { time, diff: diff.take(), name, args });
                }
                t => return Err(format!("unexpected {:?} in script body", t)),
            }
        }
    }
}

pub fn parse_doc(text: &str) -> Result<Doc, String> {
    let mut p = P { t: tokenize(text)?, i: 0 };
    let mut d = Doc::default();
    while p.peek().is_some() {
        match p.next()? {
            Tok::Ident(k) if k == "meta" || k == "entry" => {
                let v = p.value()?;
                d.metas.push((k, v));
            }
            Tok::Ident(k) if k == "script" => {
                let mut id = None;
                if let Some(Tok::Int(v)) = p.peek() {
                    id = Some(*v);
                    p.i += 1;
                }
                let name = match p.next()? {
                    Tok::Ident(s) => s,
                    t => return Err(format!("script name {:?}", t)),
                };
                p.expect('{')?;
                let instrs = p.stmts()?;
                d.scripts.push(Script { kind: k, id, name, instrs });
            }
            Tok::Ident(k) if k == "void" || k == "int" || k == "float" => {
                let name = match p.next()? {
                    Tok::Ident(s) => s,
                    t => return Err(format!("function name {:?}", t)),
                };
                p.expect('(')?;
                while !p.eat(')') {
                    p.next()?;
                }
                p.expect('{')?;
                let instrs = p.stmts()?;
                d.scripts.push(Script { kind: k, id: None, name, instrs });
            }
            t => return Err(format!("unexpected item {:?}", t)),
        }
    }
    Ok(d)
}

fn diff_bits(label: &Option<String>) -> u32 {
    // bits 0-3 only (E N H L or digits); no label = all four
    match label {
        None => 0xF,
        Some(s) => {
            let main = s.split('-').next().unwrap_or("");
            if main.contains('*') {
                return 0xF;
            }
            let mut m = 0;
            for c in main.chars() {
                m |= match c {
                    'E' | '0' => 1,
                    'N' | '1' => 2,
                    'H' | '2' => 4,
                    'L' | '3' => 8,
                    _ => 0,
                };
            }
            m
        }
    }
}

/// byte width of each argument of a signature string ('S'/'f' 4, 's'/'u' 2, 'b'/'c' 1, strings 0 = n/a)
fn arg_widths(sig: &str) -> Vec<u32> {
    let mut out = vec![];
    let mut depth = 0;
    for ch in sig.chars() {
        match ch {
            '(' => depth += 1,
            ')' => depth -= 1,
            'S' | 'f' | 'C' | 'o' | 't' | 'N' | 'n' | 'E' if depth == 0 => out.push(4),
            's' | 'u' if depth == 0 => out.push(2),
            'b' | 'c' if depth == 0 => out.push(1),
            '_' | '-' if depth == 0 => {}
            _ if depth == 0 => out.push(4),
            _ => {}
        }
    }
    out
}

fn opcode_of(name: &str) -> Option<i64> {
    name.strip_prefix("ins_").and_then(|n| n.parse::<i64>().ok())
}

fn scalar_eq(req: &Val, got: &Val) -> bool {
    match (req, got) {
        (Val::Int(a), Val::Int(b)) => (*a as i32) == (*b as i32) && (*a == *b || (*a as u32 as i64) == *b || *a == (*b as u32 as i64)),
        (Val::Float(a), Val::Float(b)) => a.to_bits() == b.to_bits() || (*a == 0.0 && *b == 0.0),
        // an integer accepted where a float is stored must keep its value exactly
        (Val::Int(a), Val::Float(b)) => (*b as f64) == (*a as f64),
        (Val::Float(a), Val::Int(b)) => (*a as f64) == (*b as f64),
        (Val::Str(a), Val::Str(b)) => a == b,
        _ => false,
    }
}

/// requested metadata scalar vs read back, by path; `missing` lists keys that vanish when they hold
/// their default value, so a missing key is a mismatch only for a non-default request
fn compare_meta(path: &str, req: &Val, got: Option<&Val>, out: &mut Vec<(String, String)>) {
    const SKIP: [&str; 8] = ["script", "path", "path_2", "name", "stage_name", "anm_path", "has_data", "rt_format"];
    let leaf = path.rsplit('.').next().unwrap_or(path);
    match req {
        Val::Obj(fields) => {
            let gobj = match got {
                Some(Val::Obj(g)) => Some(g),
                _ => None,
            };
            // sprites / objects are renamed on read-back: match by position
            let positional = leaf == "sprites" || leaf == "objects";
            for (k, (key, v)) in fields.iter().enumerate() {
                let g = gobj.and_then(|g| if positional { g.get(k).map(|(_, v)| v) } else { g.iter().find(|(gk, _)| gk == key).map(|(_, v)| v) });
                compare_meta(&format!("{}.{}", path, if positional { k.to_string() } else { key.clone() }), v, g, out);
            }
        }
        Val::Arr(xs) => {
            let garr = match got {
                Some(Val::Arr(g)) => Some(g),
                _ => None,
            };
            for (k, v) in xs.iter().enumerate() {
                compare_meta(&format!("{}.{}", path, k), v, garr.and_then(|g| g.get(k)), out);
            }
        }
        Val::Ident(_) => {}
        scalar => {
            if SKIP.contains(&leaf) {
                return;
            }
            match got {
                Some(g @ (Val::Int(_) | Val::Float(_) | Val::Str(_))) => {
                    if !scalar_eq(scalar, g) {
                        out.push((path.to_string(), format!("requested {:?}, read back {:?}", scalar, g)));
                    }
                }
                Some(_) => {}
                // a key that is absent on read-back holds its (version-dependent) default or is
                // not stored by this version of the format at all: nothing can be said
                None => {}
            }
        }
    }
}

/// oracle "fieldwise": steps = [compile, raw decompile]; the request is parsed from the source input.
pub fn oracle_fieldwise(w: &mut Worker, case: &Case) -> Vec<Violation> {
    let all = w.golden(case);
    let mut v = vec![];
    // meta.compile_step: index of the compile whose output is read back by the step after it
    // (earlier steps only prepare inputs, e.g. an ANM file to be used as image source)
    let k0 = case.meta.get("compile_step").and_then(|x| x.as_u64()).unwrap_or(0) as usize;
    if all.len() <= k0 || all[..k0].iter().any(|o| !o.ok()) {
        w.stats.probe("fieldwise:setup-failed(skip)");
        return v;
    }
    let outs: Vec<crate::sandbox::Outcome> = all[k0..].to_vec();
    let case_steps = &case.steps[k0..];
    let tool = if case_steps[0].argv.iter().any(|a| a == "--mission") { "trumsg-mission".to_string() } else { case_steps[0].argv[0].clone() };
    let game = case_steps[0].argv.iter().skip_while(|a| *a != "-g").nth(1).cloned().unwrap_or_default();
    if outs.is_empty() {
        return v;
    }
    v.extend(term_violations(&w.ctx.cfg, &outs[0]));
    v.extend(diag_violations(&outs[0]));
    if !outs[0].ok() {
        w.stats.probe("fieldwise:compile-refused(ok)");
        if let Some(d) = diagnostics(&outs[0].stderr).iter().find(|d| d.severity == "error") {
            w.stats.probe(&format!("fieldwise:refused:{}", normalise_title(&d.title)));
        }
        return v;
    }
    w.stats.nontrivial.insert(rng::hash_bytes(case.name.as_bytes()));
    let src = match crate::case::materialise(&case.inputs, &w.ctx.corpus).into_iter().find(|(p, _)| p == crate::scen::SRC) {
        Some((_, d)) => String::from_utf8_lossy(&d).into_owned(),
        None => return v,
    };
    // meta.request_rename: [[from, to], ...] textual renamings applied to the source before it is read as
    // the request -- for spellings whose meaning truth itself states (its deprecation warning says that
    // 'format', 'width', 'height' "have been renamed to" 'rt_format', 'rt_width', 'rt_height')
    let mut src = src;
    if let Some(rs) = case.meta.get("request_rename").and_then(|x| x.as_array()) {
        for r in rs {
            if let (Some(a), Some(b)) = (r.get(0).and_then(|x| x.as_str()), r.get(1).and_then(|x| x.as_str())) {
                src = src.replace(a, b);
            }
        }
    }
    let req = match parse_doc(&src) {
        Ok(d) => d,
        Err(e) => {
            w.harness_errors.push(format!("fieldwise: cannot parse own source of {}: {}", case.name, e));
            return v;
        }
    };
    let cls = |field: &str| format!("fieldwise:{}:{}:{}", tool, game, field);
    if outs.len() < 2 || !outs[1].ok() {
        v.push(Violation { class: cls("unreadable"), detail: outs.get(1).map(|o| short(&o.stderr, 400)).unwrap_or_default() });
        return v;
    }
    let text = match outs[1].files.get(crate::scen::DEC) {
        Some(t) => String::from_utf8_lossy(t).into_owned(),
        None => return v,
    };
    let got = match parse_doc(&text) {
        Ok(d) => d,
        Err(e) => {
            w.stats.probe("fieldwise:readback-not-flat(skip)");
            let _ = e;
            return v;
        }
    };
    let sig_of: std::collections::BTreeMap<i64, String> = crate::case::materialise(&case.inputs, &w.ctx.corpus)
        .into_iter()
        .find(|(p, _)| p == "fields.map")
        .map(|(_, d)| String::from_utf8_lossy(&d).lines().filter_map(|l| l.split_once(' ').and_then(|(a, b)| a.parse::<i64>().ok().map(|o| (o, b.trim().to_string())))).collect())
        .unwrap_or_default();
    // ---- scripts, by position
    if req.scripts.len() != got.scripts.len() {
        v.push(Violation { class: cls("script-count"), detail: format!("requested {} scripts, read back {}", req.scripts.len(), got.scripts.len()) });
        return v;
    }
    for (si, (rs, gs)) in req.scripts.iter().zip(got.scripts.iter()).enumerate() {
        if let (Some(a), Some(b)) = (rs.id, gs.id) {
            if a != b {
                v.push(Violation { class: cls("script-id"), detail: format!("script #{}: requested id {}, read back {}", si, a, b) });
            }
        }
        if rs.instrs.len() != gs.instrs.len() {
            v.push(Violation { class: cls("instr-count"), detail: format!("script #{} ({}): requested {} instructions, read back {}; first requested opcodes {:?}", si, rs.name, rs.instrs.len(), gs.instrs.len(), rs.instrs.iter().take(6).map(|i| i.name.clone()).collect::<Vec<_>>()) });
            continue;
        }
        for (k, (ri, gi)) in rs.instrs.iter().zip(gs.instrs.iter()).enumerate() {
            let at = format!("script #{} instr #{} ({})", si, k, ri.name);
            if opcode_of(&ri.name) != opcode_of(&gi.name) {
                v.push(Violation { class: cls("opcode"), detail: format!("{}: read back as {}", at, gi.name) });
                continue;
            }
            if ri.time as i32 != gi.time as i32 || ri.time != gi.time {
                // (the requested time is the running sum of the labels in 64 bits; a sum that leaves the
                //  32-bit range and reads back wrapped is a class of its own: upstream's tests pin it)
                let wrapped = ri.time != gi.time && (ri.time as i32) as i64 == gi.time;
                v.push(Violation { class: cls(if wrapped { "time-relative-sum-wraps" } else { "time" }), detail: format!("{}: requested time {}, read back {}", at, ri.time, gi.time) });
            }
            if diff_bits(&ri.diff) != diff_bits(&gi.diff) {
                v.push(Violation { class: cls("difficulty"), detail: format!("{}: requested {:?}, read back {:?}", at, ri.diff, gi.diff) });
            }
            if ri.args.len() != gi.args.len() {
                v.push(Violation { class: cls("arg-count"), detail: format!("{}: requested {} args, read back {}", at, ri.args.len(), gi.args.len()) });
                continue;
            }
            // widths of this opcode's arguments, from the mapfile the harness wrote
            let widths: Vec<u32> = opcode_of(&ri.name).and_then(|op| sig_of.get(&op)).map(|sg| arg_widths(sg)).unwrap_or_default();
            for (ai, (ra, ga)) in ri.args.iter().zip(gi.args.iter()).enumerate() {
                // a word/byte-sized argument holds a bit pattern: -1 and 65535 are the same word, and
                // truth accepts either spelling; what must not happen is a value that needs more bits
                // being cut down
                let same_bits = match (ra, ga, widths.get(ai)) {
                    (Val::Int(a), Val::Int(b), Some(&w)) if w < 4 => {
                        let (min, max) = (-(1i64 << (8 * w - 1)), (1i64 << (8 * w)) - 1);
                        let mask = (1i64 << (8 * w)) - 1;
                        *a >= min && *a <= max && (a & mask) == (b & mask)
                    }
                    _ => false,
                };
                if !same_bits && !scalar_eq(ra, ga) {
                    let kind = match ra {
                        Val::Int(_) => "arg-int",
                        Val::Float(_) => "arg-float",
                        Val::Str(_) => "arg-string",
                        _ => "arg",
                    };
                    let show = |x: &Val| {
                        let s = format!("{:?}", x);
                        if s.len() > 80 {
                            format!("{}...({} chars)", &s[..60], s.len())
                        } else {
                            s
                        }
                    };
                    v.push(Violation { class: cls(kind), detail: format!("{} arg {}: requested {}, read back {}", at, ai, show(ra), show(ga)) });
                }
            }
        }
    }
    // ---- metadata, by position among items of the same keyword
    for kw in ["meta", "entry"] {
        let r: Vec<&Val> = req.metas.iter().filter(|(k, _)| k == kw).map(|(_, v)| v).collect();
        let g: Vec<&Val> = got.metas.iter().filter(|(k, _)| k == kw).map(|(_, v)| v).collect();
        if r.len() != g.len() {
            v.push(Violation { class: cls(&format!("{}-count", kw)), detail: format!("requested {} `{}` items, read back {}", r.len(), kw, g.len()) });
            continue;
        }
        for (k, (rv, gv)) in r.iter().zip(g.iter()).enumerate() {
            let mut diffs = vec![];
            compare_meta(&format!("{}{}", kw, k), rv, Some(gv), &mut diffs);
            for (path, d) in diffs {
                let leaf = path.rsplit('.').next().unwrap_or("").to_string();
                let leaf = if leaf.chars().all(|c| c.is_ascii_digit()) { path.rsplit('.').nth(1).unwrap_or("").to_string() } else { leaf };
                v.push(Violation { class: cls(&format!("meta.{}", leaf)), detail: format!("{}: {}", path, d) });
            }
        }
    }
    if v.is_empty() {
        w.stats.probe("fieldwise:all-fields-equal");
    }
    v
}

// ------------------------------------------------------------------------------------------------
// workload generator

struct Prof {
    tool: &'static str,
    game: &'static str,
    magic: &'static str,
    diff: bool,
    /// signatures must be 12 bytes of arguments (TH06-09 STD)
    fixed12: bool,
    strings: Option<&'static str>,
}

const PROFS: [Prof; 16] = [
    Prof { tool: "truecl-timeline", game: "th06", magic: "!eclmap", diff: false, fixed12: false, strings: None },
    Prof { tool: "truecl-timeline", game: "th08", magic: "!eclmap", diff: false, fixed12: false, strings: None },
    Prof { tool: "trumsg-mission", game: "th095", magic: "", diff: false, fixed12: false, strings: None },
    Prof { tool: "trumsg-mission", game: "th125", magic: "", diff: false, fixed12: false, strings: None },
    Prof { tool: "truanm", game: "th06", magic: "!anmmap", diff: false, fixed12: false, strings: Some("z(bs=4)") },
    Prof { tool: "truanm", game: "th07", magic: "!anmmap", diff: false, fixed12: false, strings: Some("z(bs=4)") },
    Prof { tool: "truanm", game: "th12", magic: "!anmmap", diff: false, fixed12: false, strings: Some("z(bs=4)") },
    Prof { tool: "truanm", game: "th16", magic: "!anmmap", diff: false, fixed12: false, strings: Some("z(bs=4)") },
    Prof { tool: "trustd", game: "th08", magic: "!stdmap", diff: false, fixed12: true, strings: None },
    Prof { tool: "trustd", game: "th12", magic: "!stdmap", diff: false, fixed12: false, strings: None },
    Prof { tool: "trumsg", game: "th06", magic: "!msgmap", diff: false, fixed12: false, strings: Some("z(bs=4)") },
    Prof { tool: "trumsg", game: "th09", magic: "!msgmap", diff: false, fixed12: false, strings: Some("m(bs=4;mask=0x77,7,16)") },
    Prof { tool: "trumsg", game: "th12", magic: "!msgmap", diff: false, fixed12: false, strings: Some("m(bs=4;mask=0x77,7,16)") },
    Prof { tool: "truecl", game: "th06", magic: "!eclmap", diff: true, fixed12: false, strings: Some("z(bs=4)") },
    Prof { tool: "truecl", game: "th07", magic: "!eclmap", diff: true, fixed12: false, strings: Some("z(bs=4)") },
    Prof { tool: "truecl", game: "th08", magic: "!eclmap", diff: true, fixed12: false, strings: Some("z(bs=4)") },
];

const OPCODES: [i64; 15] = [120, 126, 127, 128, 200, 254, 255, 256, 257, 600, 1000, 32767, 32768, 65534, 65535];
const TIMES: [i64; 16] = [0, 1, 2, 100, 127, 128, 255, 256, 32767, 32768, 65535, 65536, -1, -32768, -32769, 2147483647];
const INTS: [i64; 14] = [0, 1, -1, 255, 256, 32767, 32768, 65535, 65536, -32768, -32769, 2147483647, -2147483648, 305419896];
const STRLENS: [usize; 14] = [0, 1, 3, 4, 5, 100, 250, 251, 252, 253, 255, 256, 300, 1000];
const DIFFS: [&str; 8] = ["0", "1", "2", "3", "01", "23", "012", "123"];

/// 0-2 quads of an STD object: rects everywhere, strips (type 1, TH08/09 only) where allowed; every
/// float may be negative
fn std_quads(r: &mut Rng, strips: bool) -> String {
    let mut out = vec![];
    for k in 0..r.range(if strips { 1 } else { 0 }, 2) {
        let script = *r.pick(&[0i64, 1, 255, 65535]);
        if strips && (k == 0 || r.chance(1, 2)) {
            out.push(format!("strip {{anm_script: {}, start: [{}, {}, {}], end: [{}, {}, {}], width: {}}}", script, float_lit(r), float_lit(r), float_lit(r), float_lit(r), float_lit(r), float_lit(r), float_lit(r)));
        } else {
            out.push(format!("rect {{anm_script: {}, pos: [{}, {}, {}], size: [{}, {}]}}", script, float_lit(r), float_lit(r), float_lit(r), float_lit(r), float_lit(r)));
        }
    }
    out.join(", ")
}

fn float_lit(r: &mut Rng) -> String {
    // dyadic rationals and a few large / small magnitudes, all exactly representable and printed
    // without an exponent
    let k = r.range(0, 4000) as i64 - 2000;
    let den = *r.pick(&[1i64, 2, 4, 64, 1024]);
    let f = k as f32 / den as f32 * *r.pick(&[1.0f32, 1.0, 1.0, 1024.0, 1048576.0]);
    let s = format!("{:?}", f);
    if s.contains('e') || s.contains("inf") || s.contains("NaN") {
        "1.5".to_string()
    } else {
        s
    }
}

fn sig_arg(ch: char, r: &mut Rng, wild: bool, narrow: bool) -> String {
    match ch {
        'S' => r.pick(&INTS).to_string(),
        's' | 'u' | 'b' | 'c' => {
            let (lo, hi): (i64, i64) = match ch {
                's' => (-32768, 32767),
                'u' => (0, 65535),
                'c' => (-128, 127),
                _ => (0, 255),
            };
            if wild {
                r.pick(&[lo - 1, hi + 1, lo, hi, 65536, -65536, 0, 1]).to_string()
            } else {
                r.pick(&[lo, hi, 0, 1, hi / 2]).to_string()
            }
        }
        'f' => float_lit(r),
        _ => {
            // formats with a one-byte argument size hold at most 255 bytes of arguments
            let n = if wild { *r.pick(&STRLENS) } else if narrow { *r.pick(&[0usize, 1, 3, 4, 5, 100, 200, 230]) } else { *r.pick(&[0usize, 1, 3, 4, 5, 100, 250, 251, 252, 253, 255, 256, 300, 1000]) };
            let s: String = (0..n).map(|i| (b'a' + ((i * 7 + n) % 26) as u8) as char).collect();
            format!("\"{}\"", s)
        }
    }
}

fn anm_entry(r: &mut Rng, game: &str, wild: bool, nspr: &mut i64) -> String {
    let old_header = game == "th06" || game == "th07";
    let dims: &[i64] = if wild { &[16, 256, 512, 1024, 32768, 65535, 65536, 70000] } else { &[16, 256, 512, 1024, 32768] };
    let offs: &[i64] = if wild { &[0, 1, 8, 255, 256, 65535, 65536, 100000] } else { &[0, 1, 8, 255, 256, 65535] };
    let prio = [0i64, 1, 10, 11, 255, 256, 65535, 65536, 2147483647];
    let mut s = String::from("entry {\n    path: \"subdir/file.png\",\n");
    if r.chance(1, 3) {
        // a generated placeholder texture: its dimensions and format live in the THTX header
        let (w, h): (i64, i64) = if wild { (*r.pick(&[1i64, 4, 256, 65535, 65536, 60000, 100000]), *r.pick(&[1i64, 4, 256, 65535, 65536, 60000])) } else { (*r.pick(&[1i64, 2, 4, 16, 64, 100]), *r.pick(&[1i64, 2, 4, 16, 64])) };
        s.push_str(&format!("    has_data: \"dummy\",\n    img_width: {},\n    img_height: {},\n    img_format: {},\n", w, h, r.pick(&[1i64, 3, 5, 7])));
    } else {
        s.push_str("    has_data: false,\n");
    }
    s.push_str(&format!("    rt_width: {},\n    rt_height: {},\n    rt_format: 3,\n", r.pick(dims), r.pick(dims)));
    if old_header {
        s.push_str(&format!("    colorkey: {},\n", r.pick(&[0i64, 1, 0x00ff00ff, 0x7fffffff])));
    } else {
        s.push_str(&format!("    offset_x: {},\n    offset_y: {},\n", r.pick(offs), r.pick(offs)));
    }
    if game != "th06" {
        s.push_str(&format!("    memory_priority: {},\n", r.pick(&prio)));
    }
    if game == "th12" || game == "th16" {
        s.push_str(&format!("    low_res_scale: {},\n", r.pick(&["false", "true"])));
    }
    s.push_str("    sprites: {\n");
    let n = r.range(0, 3);
    let ids = [0i64, 1, 5, 255, 256, 65535, 65536, 1000000];
    let mut used = vec![];
    for k in 0..n {
        let id = *r.pick(&ids) + *nspr;
        if used.contains(&id) {
            continue;
        }
        used.push(id);
        let _ = k;
        // (wild) an integer literal where a float is stored: refused, or kept exactly
        let fx = if wild && r.chance(1, 3) { r.pick(&[5i64, 16777216, 16777217, 2147483647, -16777217]).to_string() } else { float_lit(r) };
        s.push_str(&format!("        spr{}: {{id: {}, x: {}, y: {}, w: {}, h: {}}},\n", *nspr, id, fx, float_lit(r), float_lit(r), float_lit(r)));
        *nspr += 1;
    }
    s.push_str("    },\n}\n");
    s
}

/// one flat program for profile `p`: (source, mapfile)
fn gen_program(p: &Prof, r: &mut Rng) -> (String, String) {
    let wild = r.chance(1, 3);
    let narrow = matches!((p.tool, p.game), ("trumsg", _) | ("truanm", "th06") | ("truecl-timeline", "th08"));
    // signatures for this program
    let base_sigs: Vec<&str> = if p.fixed12 { vec!["SSS", "Sff", "fff", "ffS"] } else { vec!["", "S", "SS", "f", "Sf", "SSS", "ff", "ss", "uS", "bbcc", "sbc_"] };
    let mut sigs: Vec<(i64, String)> = vec![];
    let nops = r.range(2, 5) as usize;
    let mut ops: Vec<i64> = vec![];
    while ops.len() < nops {
        let o = if wild { *r.pick(&OPCODES) } else if narrow { *r.pick(&[100i64, 101, 110, 120, 126, 127]) } else { *r.pick(&[600i64, 601, 700, 1000, 4096, 32767, 32768, 65534]) };
        if !ops.contains(&o) {
            ops.push(o);
        }
    }
    for (k, o) in ops.iter().enumerate() {
        let mut sg = r.pick(&base_sigs).to_string();
        if k == 0 && !p.fixed12 {
            if let Some(ss) = p.strings {
                if r.chance(1, 2) {
                    sg = format!("{}{}", r.pick(&["", "S"]), ss);
                }
            }
        }
        sigs.push((*o, sg));
    }
    if p.tool == "truecl-timeline" {
        // timeline instructions: in TH06/07 the first (word-sized) argument lives in the header
        for (k, (_, sg)) in sigs.iter_mut().enumerate() {
            if p.game == "th06" {
                *sg = ["s(arg0)", "s(arg0)S", "s(arg0)fS", "S", "SS", "ff"][k % 6].to_string();
            } else {
                *sg = ["S", "SS", "Sf", "ss", "", "fff"][k % 6].to_string();
            }
        }
    }
    let mut map = format!("{}\n{}\n", p.magic, if p.tool == "truecl-timeline" { "!timeline_ins_signatures" } else { "!ins_signatures" });
    for (o, sg) in &sigs {
        map.push_str(&format!("{} {}\n", o, sg));
    }
    let kinds = |sg: &str| -> Vec<char> {
        let mut out = vec![];
        let mut depth = 0;
        for ch in sg.chars() {
            match ch {
                '(' => depth += 1,
                ')' => depth -= 1,
                '_' | '-' if depth == 0 => {}
                c if depth == 0 => out.push(c),
                _ => {}
            }
        }
        out
    };
    let body = |r: &mut Rng| -> String {
        let mut s = String::new();
        let n = r.range(1, 5);
        for _ in 0..n {
            if r.chance(2, 3) {
                let t = if wild { *r.pick(&TIMES) } else if p.tool == "truecl" || p.tool == "trustd" || (p.tool == "truecl-timeline" && p.game == "th08") { *r.pick(&[0i64, 1, 100, 32767, 32768, 65536, -1, -32769, 2147483647]) } else { *r.pick(&[0i64, 1, 2, 100, 255, 256, 32767, -1, -32768]) };
                if r.chance(1, 4) {
                    let d = if wild { *r.pick(&[1i64, 30000, 65535, 2147483647, 1073741824]) } else { *r.pick(&[1i64, 2, 10, 100]) };
                    s.push_str(&format!("{}:\n+{}:\n", t, d));
                } else {
                    s.push_str(&format!("{}:\n", t));
                }
            }
            let (o, sg) = r.pick(&sigs).clone();
            let args: Vec<String> = kinds(&sg).into_iter().map(|c| sig_arg(c, r, wild, narrow)).collect();
            let dl = if p.diff && r.chance(1, 3) { format!("{{\"{}\"}}: ", r.pick(&DIFFS)) } else { String::new() };
            s.push_str(&format!("    {}ins_{}({});\n", dl, o, args.join(", ")));
        }
        s
    };
    let mut src = String::new();
    if p.tool == "trumsg-mission" {
        let w16: &[i64] = if wild { &[0, 1, 255, 256, 65535, 65536, 70000] } else { &[0, 1, 12, 255, 256, 1000, 65535] };
        let w8: &[i64] = if wild { &[0, 1, 255, 256, 511] } else { &[0, 1, 2, 127, 128, 255] };
        let w32 = [0i64, 1, 9999, 65536, 2147483647];
        let line = |r: &mut Rng| -> String {
            let n = *r.pick(&[0usize, 1, 5, 20, 40]);
            (0..n).map(|i| (b'a' + ((i * 5 + n) % 26) as u8) as char).collect()
        };
        for _ in 0..r.range(1, 3) {
            if p.game == "th095" {
                src.push_str(&format!("entry {{\n    stage: {},\n    scene: {},\n    face: {},\n    point: {},\n    text: [\"{}\", \"{}\", \"{}\"],\n}}\n", r.pick(w16), r.pick(w16), r.pick(&w32), r.pick(&w32), line(r), line(r), line(r)));
            } else {
                src.push_str(&format!(
                    "entry {{\n    stage: {},\n    scene: {},\n    player: {},\n    unknown_1: {},\n    unknown_2: {},\n    point_1: {},\n    point_2: {},\n    furigana: [[{}, {}], [{}, {}], [{}, {}]],\n    text: [\"{}\", \"{}\", \"{}\", \"{}\", \"{}\", \"{}\"],\n}}\n",
                    r.pick(w16), r.pick(w16), r.pick(w16), r.pick(w8), r.pick(w8), r.pick(&w32), r.pick(&w32),
                    r.pick(&w32), r.pick(&w32), r.pick(&w32), r.pick(&w32), r.pick(&w32), r.pick(&w32),
                    line(r), line(r), line(r), line(r), line(r), line(r)
                ));
            }
        }
        return (src, String::new());
    }
    match p.tool {
        "truanm" => {
            let nentries = r.range(1, 2);
            let mut sid = 0;
            let mut nspr = 0i64;
            for _ in 0..nentries {
                src.push_str(&anm_entry(r, p.game, wild, &mut nspr));
                for _ in 0..r.range(1, 2) {
                    let id = if r.chance(1, 3) { *r.pick(&[0i64, 7, 255, 256, 65535, 65536, 1000000]) + sid } else { sid };
                    src.push_str(&format!("script {} scr{} {{\n{}}}\n", id, sid, body(r)));
                    sid += 1;
                }
            }
        }
        "trustd" => {
            if p.game == "th08" {
                src.push_str(&format!("meta {{\n    unknown: {},\n    stage_name: \"dm\",\n    bgm: [\n        {{path: \"bgm/a.mid\", name: \"dm\"}},\n        {{path: \"bgm/b.mid\", name: \"dm\"}},\n        {{path: \" \", name: \" \"}},\n        {{path: \" \", name: \" \"}},\n    ],\n    objects: {{\n        thing: {{\n            layer: {},\n            pos: [{}, {}, {}],\n            size: [{}, {}, {}],\n            quads: [{}],\n        }},\n    }},\n    instances: [{}],\n}}\n", r.pick(&[0i64, 1, 65536, 2147483647]), r.pick(&[0i64, 4, 255, 65535]), float_lit(r), float_lit(r), float_lit(r), float_lit(r), float_lit(r), float_lit(r), std_quads(r, true), if r.chance(1, 2) { format!("thing {{pos: [{}, {}, {}]}}", float_lit(r), float_lit(r), float_lit(r)) } else { String::new() }));
            } else {
                src.push_str(&format!(
                    "meta {{\n    unknown: {},\n    anm_path: \"stage01.anm\",\n    objects: {{\n        thing: {{\n            layer: {},\n            pos: [{}, {}, {}],\n            size: [{}, {}, {}],\n            quads: [{}],\n        }},\n    }},\n    instances: [],\n}}\n",
                    r.pick(&[0i64, 1, 65536, 2147483647]),
                    if wild { *r.pick(&[0i64, 4, 255, 256, 65535, 65536]) } else { *r.pick(&[0i64, 4, 255, 256, 65535]) },
                    float_lit(r),
                    float_lit(r),
                    float_lit(r),
                    float_lit(r),
                    float_lit(r),
                    float_lit(r),
                    std_quads(r, false)
                ));
            }
            src.push_str(&format!("script main {{\n{}}}\n", body(r)));
        }
        "trumsg" => {
            let n = r.range(1, 3);
            let flags = if p.game == "th06" { "" } else { ", flags: 256" };
            let idx = [0i64, 1, 2, 5, 255, 256, 1000];
            let mut used: Vec<i64> = vec![];
            src.push_str("meta {\n    table: {\n");
            for k in 0..n {
                let mut i = *r.pick(&idx);
                while used.contains(&i) {
                    i += 1;
                }
                used.push(i);
                src.push_str(&format!("        {}: {{script: \"s{}\"{}}},\n", i, k, flags));
            }
            src.push_str("    },\n}\n");
            for k in 0..n {
                src.push_str(&format!("script s{} {{\n{}}}\n", k, body(r)));
            }
        }
        "truecl-timeline" => {
            for k in 0..(if p.game == "th06" { 1 } else { r.range(1, 2) }) {
                // (wild) an explicit, absurd timeline index: refused, never "filled in" up to it
                if wild && r.chance(1, 4) {
                    src.push_str(&format!("script {} timeline{} {{\n{}}}\n", r.pick(&[14i64, 15, 16, 255, 65536, 2000000000]), k, body(r)));
                } else {
                    src.push_str(&format!("script timeline{} {{\n{}}}\n", k, body(r)));
                }
            }
            src.push_str("void sub0() {}\n");
        }
        _ => {
            src.push_str("script timeline0 {}\n");
            for k in 0..r.range(1, 3) {
                src.push_str(&format!("void sub{}() {{\n{}}}\n", k, body(r)));
            }
        }
    }
    (src, map)
}

pub fn field_cases(ctx: &Ctx) -> Vec<Case> {
    let per_profile = if ctx.tier == Tier::Quick { 10 } else { 120 };
    let mut out = vec![];
    for p in PROFS.iter() {
        for k in 0..per_profile {
            let mut r = Rng::new(rng::mix(ctx.seed, &format!("fields/{}/{}", p.tool, p.game), k));
            let (src, map) = gen_program(p, &mut r);
            let inputs = vec![Input::tree("map/"), Input::text(crate::scen::SRC, &src), Input::text("fields.map", &map)];
            let sv = |xs: &[&str]| xs.iter().map(|s| s.to_string()).collect::<Vec<String>>();
            let tool = if p.tool == "truecl-timeline" { "truecl" } else { p.tool };
            let (compile, dec) = if p.tool == "trumsg-mission" {
                (Step::new(sv(&["trumsg", "compile", "--mission", "-g", p.game, crate::scen::SRC, "-o", crate::scen::OUT])), Step::new(sv(&["trumsg", "decompile", "--mission", "-g", p.game, crate::scen::OUT, "-o", crate::scen::DEC])))
            } else {
                (
                    Step::new(sv(&[tool, "compile", "-g", p.game, crate::scen::SRC, "-o", crate::scen::OUT, "-m", "fields.map"])),
                    Step::new(sv(&[tool, "decompile", "-g", p.game, crate::scen::OUT, "-o", crate::scen::DEC, "-m", "fields.map", "--no-blocks", "--no-intrinsics", "--no-diff-switches", "--no-calls"])),
                )
            };
            out.push(Case { property: "C03".into(), oracle: "fieldwise".into(), name: format!("fields:{}:{}#{}", p.tool, p.game, k), inputs, steps: vec![compile, dec], meta: json!({}) });
        }
    }
    out
}
