use crate::case::Case;
use crate::engine::Worker;
use crate::oracle::Violation;

pub fn oracle_readback(_w: &mut Worker, _case: &Case) -> Vec<Violation> {
    vec![]
}
