//! C03 — a successful compile never writes a file that differs from what was asked.
//!
//! Simulated dimension: the write side of every compile command.  Golden = the fault-free run; then
//! every tracked create/write/lseek/mkdir event x applicable errno, short writes, disk-full budgets
//! on and around every write-call boundary (complete enumeration for a seed-rotated subset),
//! EINTR bursts and transfer chunkings.  Oracle: O-failstop / O-benign (exit 0 => outputs identical
//! to golden).  Fault-free baseline ("can be read back"): decompile of the output succeeds and
//! read->write (redump) or decompile->compile reproduces the bytes.

use crate::case::{Case, Step};
use crate::engine::*;
use crate::oracle::*;
use crate::report::CheckResult;
use crate::rng;
use crate::scen;
use serde_json::json;
use std::collections::BTreeMap;

fn s(x: &str) -> String {
    x.to_string()
}

/// Baseline oracle ("the file it wrote can be read back by truth for the same game").
/// steps: [compile, reader] where reader is truth's own read->write command (msg-redump / ecl-redump)
/// or, for formats without one, the rawest decompile (--no-blocks --no-intrinsics --no-arguments).
/// Violation iff compile exits 0 and the reader does not.  (Byte equality of a rewrite is *not*
/// demanded: the repository's own tests document legitimate non-canonical outputs; that relation is
/// C01's subject, with its warning exemption.)
pub fn oracle_readback(w: &mut Worker, case: &Case) -> Vec<Violation> {
    let outs = w.golden(case);
    let mut v = vec![];
    if outs.is_empty() || !outs[0].ok() {
        w.stats.probe("readback:compile-failed(skip)");
        return v;
    }
    if !outs[0].files.contains_key(scen::OUT) {
        v.push(Violation { class: "readback:no-output-file".into(), detail: "compile exited 0 without writing its output".into() });
        return v;
    }
    w.stats.nontrivial.insert(rng::hash_bytes(case.name.as_bytes()));
    if outs.len() < 2 || !outs[1].ok() {
        let class = format!("readback:own-output-unreadable:{}", case.steps[0].argv[0]);
        v.push(Violation { class, detail: outs.get(1).map(|o| short(&o.stderr, 400)).unwrap_or_default() });
        return v;
    }
    w.stats.probe("readback:ok");
    if let (Some(a), Some(b)) = (outs[0].files.get(scen::OUT), outs[1].files.get(scen::OUT2)) {
        if a == b {
            w.stats.probe("readback:redump-identical(info)");
        } else {
            w.stats.probe("readback:redump-differs(info)");
        }
    }
    v
}

pub fn format_class(c: &Case) -> String {
    let a = &c.steps[0].argv;
    let mut k = format!("{}:{}", a[0], a.get(3).cloned().unwrap_or_default());
    for f in ["--mission", "--ending"] {
        if a.iter().any(|x| x == f) {
            k.push_str(f);
        }
    }
    k
}

pub fn run(ctx: &Ctx) -> CheckResult {
    let quick = ctx.tier == Tier::Quick;
    // ---- scenarios: every source item, compile only (+ thecl defs for ANM: the Fs::write path)
    let mut bases: Vec<Case> = vec![];
    for item in scen::source_items(&ctx.corpus) {
        let mut c = scen::compile_case(item, false);
        if item.cmd == "truanm" {
            c.steps[0].argv.extend([s("--output-thecl-defs"), s("defs.h")]);
        }
        c.property = "C03".into();
        bases.push(c);
    }
    // ---- baseline: read back
    let mut rb: Vec<Case> = vec![];
    for item in scen::source_items(&ctx.corpus) {
        let mut c = scen::compile_case(item, false);
        c.property = "C03".into();
        c.oracle = "readback".into();
        c.name = format!("readback:{}", item.id);
        let mode_flag = item.compile_args.iter().any(|a| a == "--mission" || a == "--ending");
        if (item.cmd == "trumsg" || item.cmd == "truecl") && !mode_flag {
            let redump = if item.cmd == "trumsg" { "msg-redump" } else { "ecl-redump" };
            c.steps.push(Step::new(vec![s(redump), s(scen::OUT), s("-g"), item.game.clone(), s("-o"), s(scen::OUT2)]));
        } else {
            // (only the mapfiles the compile saw: decompile-only mapfiles/args of the test are test-specific)
            let mut argv = vec![item.cmd.clone(), s("decompile"), s("-g"), item.game.clone(), s(scen::OUT), s("-o"), s(scen::DEC)];
            for i in 0..(item.mapfiles.len() + item.compile_mapfiles.len()) {
                argv.extend([s("-m"), format!("mapfile-{}", i + 1)]);
            }
            argv.extend(item.compile_args.iter().filter(|a| *a == "--mission" || *a == "--ending").cloned());
            argv.extend([s("--no-blocks"), s("--no-intrinsics"), s("--no-arguments")]);
            c.steps.push(Step::new(argv));
        }
        rb.push(c);
    }
    let (compiles, mut stats, mut findings, mut herr) = par_map(ctx, &rb, |w, _, c| {
        w.judge(c);
        w.golden(c).get(0).map_or(false, |o| o.ok())
    });

    // ---- field-for-field read-back of seeded flat programs with boundary values (checks/fields.rs)
    let field_cases = crate::checks::fields::field_cases(ctx);
    let (_r, st_f, f_f, h_f) = par_map(ctx, &field_cases, |w, _, c| w.judge(c));
    stats.merge(st_f);
    findings.extend(f_f);
    herr.extend(h_f);

    // ---- initial-state variation: the output paths already exist and hold longer, unrelated data
    let mut stale_cases: Vec<Case> = vec![];
    for (i, c) in bases.iter().enumerate() {
        if !compiles[i] || (quick && i % 4 != (ctx.seed % 4) as usize && !c.name.contains("extra/")) {
            continue;
        }
        let mut sc = c.clone();
        sc.oracle = "stale".into();
        sc.name = format!("{} [stale outputs]", c.name);
        let junk: Vec<u8> = (0..6000u32).map(|k| (k * 7 + 13) as u8).collect();
        sc.inputs.push(crate::case::Input::bytes(scen::OUT, junk.clone()));
        let mut stale = vec![scen::OUT.to_string()];
        if sc.steps[0].argv.iter().any(|a| a == "defs.h") {
            sc.inputs.push(crate::case::Input::bytes("defs.h", junk.clone()));
            stale.push("defs.h".into());
        }
        sc.meta = json!({"stale": stale});
        stale_cases.push(sc);
    }
    let (_r, st_stale, f_stale, h_stale) = par_map(ctx, &stale_cases, |w, _, c| w.judge(c));
    stats.merge(st_stale);
    findings.extend(f_stale);
    herr.extend(h_stale);

    // ---- more initial states and configurations with a reference run:
    //  (a) outputs pre-exist as proper prefixes of themselves / as empty files (an interrupted earlier run);
    //  (b) TRUTH_MAP_PATH, which only decompile is documented to read, is set and names maps that
    //      redefine signatures: compile must not care;
    //  (c) the scenario's mapfiles arrive by `#pragma mapfile` instead of -m: same output.
    let hostile = |cmd: &str| -> (String, String) {
        let (ext, magic) = match cmd {
            "truanm" => ("anmm", "!anmmap"),
            "trustd" => ("stdm", "!stdmap"),
            "trumsg" => ("msgm", "!msgmap"),
            _ => ("eclm", "!eclmap"),
        };
        let mut t = format!("{}\n!ins_signatures\n", magic);
        for op in 0..64 {
            t.push_str(&format!("{} s--\n", op));
        }
        t.push_str("!ins_names\n0 hostileZero\n1 hostileOne\n");
        (format!("hostile-maps/any.{}", ext), t)
    };
    let sel: Vec<usize> = (0..bases.len()).filter(|&i| compiles[i] && (!quick || bases[i].name.contains("extra/feature") || i % 6 == (ctx.seed % 6) as usize)).collect();
    let (_r, st_v, f_v, h_v) = par_map(ctx, &sel, |w, _, &i| {
        let base = &bases[i];
        for empty in [false, true] {
            if let Some(c) = prefix_stale_case(w, base, empty) {
                w.judge(&c);
            }
        }
        // (b)
        let mut c = base.clone();
        let (p, t) = hostile(&base.steps[0].argv[0]);
        c.inputs.push(crate::case::Input::text(&p, &t));
        c.steps[0].env.push(("TRUTH_MAP_PATH".into(), "hostile-maps".into()));
        c.oracle = "stale".into();
        c.name = format!("{} [env TRUTH_MAP_PATH=hostile-maps]", base.name);
        c.meta = json!({"stale": [p], "ignore_env": true, "variant": "env-insensitive"});
        w.judge(&c);
        // (d) the same command spelled differently: long options, options before the script, the game
        //     given as a bare number, `--opt=value`-free forms with repeated whitespace-free values
        {
            let a = &base.steps[0].argv;
            let mut respelt: Vec<String> = vec![a[0].clone(), a[1].clone()];
            let mut positional: Vec<String> = vec![];
            let mut k = 2;
            while k < a.len() {
                let (long, takes) = match a[k].as_str() {
                    "-g" => ("--game", true),
                    "-o" => ("--output", true),
                    "-m" => ("--map", true),
                    "-i" => ("--image-source", true),
                    x if x.starts_with("--output-") => (x, true),
                    x if x.starts_with('-') => (x, false),
                    _ => ("", false),
                };
                if long.is_empty() {
                    positional.push(a[k].clone());
                    k += 1;
                } else if takes && k + 1 < a.len() {
                    respelt.push(long.to_string());
                    let mut v = a[k + 1].clone();
                    if long == "--game" {
                        v = v.trim_start_matches("th").trim_start_matches('0').to_string();
                    }
                    respelt.push(v);
                    k += 2;
                } else {
                    respelt.push(long.to_string());
                    k += 1;
                }
            }
            respelt.extend(positional);
            let mut c = base.clone();
            let reference_argv = c.steps[0].argv.clone();
            c.steps[0].argv = respelt;
            c.oracle = "stale".into();
            c.name = format!("{} [respelt: long options first, bare game number]", base.name);
            c.meta = json!({"stale": [], "variant": "invocation-spelling", "reference_steps": [reference_argv]});
            w.judge(&c);
        }
        // (c)
        let argv = &base.steps[0].argv;
        let ms: Vec<String> = argv.iter().enumerate().filter(|(k, a)| *k > 0 && argv[*k - 1] == "-m" && a.starts_with("mapfile-")).map(|(_, a)| a.clone()).collect();
        if !ms.is_empty() {
            let mut c = base.clone();
            let reference_argv = c.steps[0].argv.clone();
            let mut k = 0;
            while k < c.steps[0].argv.len() {
                if c.steps[0].argv[k] == "-m" && c.steps[0].argv.get(k + 1).map_or(false, |a| a.starts_with("mapfile-")) {
                    c.steps[0].argv.drain(k..k + 2);
                } else {
                    k += 1;
                }
            }
            let pragmas: String = ms.iter().map(|m| format!("#pragma mapfile \"{}\"\n", m)).collect();
            let mut original = String::new();
            for inp in c.inputs.iter_mut() {
                if inp.path == scen::SRC {
                    if let crate::case::Base::Text(t) = &inp.base {
                        original = t.clone();
                        inp.base = crate::case::Base::Text(format!("{}{}", pragmas, t));
                    }
                }
            }
            c.oracle = "stale".into();
            c.name = format!("{} [mapfiles via #pragma instead of -m]", base.name);
            c.meta = json!({"stale": [], "variant": "mapfile-arrival", "reference_steps": [reference_argv], "reference_source": original});
            w.judge(&c);
        }
    });
    stats.merge(st_v);
    findings.extend(f_v);
    herr.extend(h_v);

    // ---- fault campaign
    // group by format class; complete budget enumeration for a seed-rotated member of each class,
    // boundary budgets for the rest (quick: 2 members per class)
    let mut by_class: BTreeMap<String, Vec<usize>> = BTreeMap::new();
    for (i, c) in bases.iter().enumerate() {
        if compiles[i] {
            by_class.entry(format_class(c)).or_default().push(i);
        }
    }
    let mut jobs: Vec<FaultJob> = vec![];
    for (cls, idxs) in &by_class {
        let rot = rng::mix(ctx.seed, cls, 0) as usize;
        let chosen: Vec<usize> = if quick { (0..idxs.len().min(3)).map(|k| idxs[(rot + k * 7) % idxs.len()]).collect() } else { idxs.clone() };
        let mut chosen = chosen;
        chosen.sort();
        chosen.dedup();
        for (k, &i) in chosen.iter().enumerate() {
            let big = bases[i].name.contains("extra/big");
            let budgets = if k == 0 && !big {
                if quick {
                    Budgets::BoundariesPlus(24)
                } else {
                    Budgets::Complete
                }
            } else if quick {
                Budgets::Boundaries
            } else {
                Budgets::BoundariesPlus(32)
            };
            jobs.push(FaultJob { base: bases[i].clone(), step: 0, space: FaultSpace { read_side: false, write_side: true, meta_side: false, budgets, seed: rng::mix(ctx.seed, &bases[i].name, 1) }, noise: k == 0 || !quick, max_variants: 0 });
        }
    }
    // always include the extra items (mission / ending / big) in quick as well
    if quick {
        for (i, c) in bases.iter().enumerate() {
            if compiles[i] && c.name.contains("extra/") && !jobs.iter().any(|j| j.base.name == c.name) {
                jobs.push(FaultJob { base: bases[i].clone(), step: 0, space: FaultSpace { read_side: false, write_side: true, meta_side: false, budgets: Budgets::Boundaries, seed: ctx.seed }, noise: false, max_variants: 0 });
            }
        }
    }
    // the size a stat call reports is a hint, not the length of the source: 0 (the script arrives through
    // a pipe-like file) and 8 TiB (sparse file) on every stat/fstat of the compile, for one scenario per
    // format class (all of them in thorough); with size 0 the output must be the fault-free output
    for (_cls, idxs) in &by_class {
        let take: Vec<usize> = if quick { idxs.iter().copied().take(1).collect() } else { idxs.clone() };
        for i in take {
            jobs.push(FaultJob { base: bases[i].clone(), step: 0, space: FaultSpace { read_side: false, write_side: false, meta_side: true, budgets: Budgets::Boundaries, seed: ctx.seed }, noise: false, max_variants: 0 });
        }
    }
    let camp = run_fault_campaign(ctx, &jobs);
    stats.merge(camp.stats);
    findings.extend(camp.findings);
    herr.extend(camp.harness_errors);

    let mut extra = BTreeMap::new();
    extra.insert("compile_scenarios".into(), json!(bases.len()));
    extra.insert("format_classes".into(), json!(by_class.keys().collect::<Vec<_>>()));
    extra.insert("fault_jobs".into(), json!(jobs.len()));
    extra.insert("fault_jobs_skipped_because_compile_fails".into(), json!(camp.skipped_jobs));
    extra.insert("fault_variants".into(), json!(camp.variants));
    extra.insert("readback_cases".into(), json!(rb.len()));
    extra.insert("fieldwise_cases".into(), json!(field_cases.len()));
    extra.insert("stale_output_cases".into(), json!(stale_cases.len()));
    let mut samples = camp.samples;
    samples.push(json!({"readback": rb.get(0).map(|c| c.steps.iter().map(|s| s.argv.join(" ")).collect::<Vec<_>>())}));
    CheckResult {
        property: "C03".into(),
        level: "fault_enumeration",
        stats,
        findings,
        harness_errors: herr,
        rule: "(a) fault campaign: for each chosen compile scenario, one run per (tracked create/write/lseek/mkdir event x applicable errno), per short write, per disk-full budget (on/around every write-call boundary; every byte for one scenario per format class in thorough), per EINTR period and per transfer chunking; a case is non-trivial when the shim's log shows the fault actually fired; distinct = (scenario, plan). (b) read-back baseline: every compilable source: compile -> decompile -> redump/recompile must reproduce the bytes".into(),
        samples,
        extra,
        exhaustive: false,
        assumptions: vec![
            "single-fault model: one hard fault per run (nothing in truth retries), optionally with benign EINTR/short-transfer noise".into(),
            "the value-range half of C03 (narrowing casts at field boundaries) is a pure function of the input and is not covered".into(),
            "disk-full is modelled as a byte budget over all writes of the run (seek-back rewrites count), sticky ENOSPC afterwards".into(),
        ],
    }
}
