//! C19 — output is a deterministic function of the inputs: every scenario is executed as fresh
//! processes under K distinct hash keys (the simulator owns std's RandomState seed) and all
//! observable tuples (exit status, stdout, stderr text and order, every output file) must agree.

use crate::case::Case;
use crate::engine::{par_map, Ctx, Tier};
use crate::report::CheckResult;
use crate::rng;
use crate::scen;
use serde_json::json;

fn nkeys(ctx: &Ctx) -> u64 {
    if ctx.tier == Tier::Quick {
        6
    } else {
        24
    }
}

pub fn scenarios(ctx: &Ctx) -> Vec<Case> {
    let mut out: Vec<Case> = vec![];
    let nkeys = nkeys(ctx);
    let keys_for = |name: &str| -> Vec<u64> { (0..nkeys).map(|j| rng::mix(ctx.seed, name, j) | 1).collect() };
    let mut push = |mut c: Case| {
        c.property = "C19".into();
        c.oracle = "seed".into();
        c.meta["keys"] = json!(keys_for(&c.name));
        out.push(c);
    };
    let quick = ctx.tier == Tier::Quick;
    // generated programs ("gen/" items): a seed-rotated third of them in quick
    let take = |item: &crate::corpus::Item| -> bool { !(quick && item.id.starts_with("gen/") && rng::mix(ctx.seed, &item.id, 7) % 3 != 0) };
    for item in scen::source_items(&ctx.corpus).into_iter().filter(|i| take(i)) {
        // compile with debug info (+ thecl defs): diagnostics order, debug-info content;
        // then decompile and recompile: decompiled text, names chosen, recompiled bytes
        let mut c = scen::source_roundtrip_case(item, &[], None);
        c.steps[0].argv.extend(["--output-debug-info".to_string(), scen::DBG.to_string()]);
        if item.cmd == "truanm" {
            c.steps[0].argv.extend(["--output-thecl-defs".to_string(), "defs.h".to_string()]);
        }
        push(c);
    }
    // error paths are where order dependence hides (several diagnostics compete): every source also
    // runs with a few seed-drawn storage corruptions of the script or of one of its mapfiles
    let n_corrupt = if ctx.tier == Tier::Quick { 1 } else { 6 };
    for item in scen::source_items(&ctx.corpus).into_iter().filter(|i| take(i)) {
        let base = scen::compile_case(item, true);
        let mut r = crate::rng::Rng::new(rng::mix(ctx.seed, &item.id, 190));
        for j in 0..n_corrupt {
            let attackable: Vec<usize> = base.inputs.iter().enumerate().filter(|(_, i)| matches!(i.base, crate::case::Base::Text(_))).map(|(k, _)| k).collect();
            let ii = *r.pick(&attackable);
            let data = match &base.inputs[ii].base {
                crate::case::Base::Text(t) => t.as_bytes().to_vec(),
                _ => continue,
            };
            if data.is_empty() {
                continue;
            }
            let all = crate::corrupt::text_faults(&data, &[]);
            let f = r.pick(&all).clone();
            let mut c = base.clone();
            c.inputs[ii].corrupt = f.ops;
            c.name = format!("{} [corrupt#{} {}@{} of {}]", c.name, j, f.kind, f.off, c.inputs[ii].path);
            push(c);
        }
    }
    // extract: order of 'exported' lines and of files
    for item in ctx.corpus.binaries().filter(|b| b.cmd == "truanm" && b.id.starts_with("res/")) {
        let path = item.path.clone().unwrap();
        push(Case {
            property: String::new(),
            oracle: String::new(),
            name: format!("extract:{}", item.id),
            inputs: vec![crate::case::Input::tree("map/"), crate::case::Input::corpus(&path)],
            steps: vec![crate::case::Step::new(vec!["truanm".into(), "extract".into(), "-g".into(), item.game.clone(), path.clone(), "-o".into(), "ext".into()])],
            meta: json!({}),
        });
    }
    // failure paths of extract and compile: the same I/O fault (or the same obstructing file-system
    // state) under every key must give the same diagnostics and leave the same files behind -- a
    // process id, an address or a hash order that leaks into a temp-file name or a message shows here
    // (under a key the shim also derives getpid() from the key)
    for item in ctx.corpus.binaries().filter(|b| b.cmd == "truanm" && b.id.starts_with("res/th12-embedded")) {
        let path = item.path.clone().unwrap();
        let base = Case {
            property: String::new(),
            oracle: String::new(),
            name: format!("extract:{}", item.id),
            inputs: vec![crate::case::Input::tree("map/"), crate::case::Input::corpus(&path)],
            steps: vec![crate::case::Step::new(vec!["truanm".into(), "extract".into(), "-g".into(), item.game.clone(), path.clone(), "-o".into(), "ext".into()])],
            meta: json!({}),
        };
        let plans: Vec<&str> = if quick { vec!["full=0", "full=700", "at=4:EIO", "at=9:EIO", "at=3:EACCES"] } else { vec!["full=0", "full=1", "full=700", "full=5000", "full=9000", "full=20000", "at=2:EIO", "at=3:EACCES", "at=4:EIO", "at=6:EIO", "at=9:EIO", "at=12:ENOSPC", "at=15:EIO", "at=20:EIO"] };
        for plan in plans {
            let mut c = base.clone();
            c.steps[0].plan = plan.to_string();
            c.name = format!("{} [fault {}]", base.name, plan);
            push(c);
        }
        for (tag, extra) in [
            ("dir-where-image-goes", vec![crate::case::Input::text("ext/lmao.png/.keep", ""), crate::case::Input::text("ext/subdir/hi-32x16.png/.keep", "")]),
            ("file-where-dir-goes", vec![crate::case::Input::text("ext/subdir", "i am a file")]),
            ("dangling-link", vec![crate::case::Input::symlink("ext/lmao.png", "nowhere/at/all.png")]),
        ] {
            let mut c = base.clone();
            c.inputs.extend(extra);
            c.name = format!("{} [state {}]", base.name, tag);
            push(c);
        }
    }
    for item in scen::source_items(&ctx.corpus).into_iter().filter(|i| i.id.starts_with("extra/big") || i.id.starts_with("extra/mission") || i.id.contains("compile_simple")) {
        let base = scen::compile_case(item, true);
        for plan in ["full=0", "full=100", "full=9000", "at=6:EIO", "at=10:EIO"] {
            let mut c = base.clone();
            c.steps[0].plan = plan.to_string();
            c.name = format!("{} [fault {}]", base.name, plan);
            push(c);
        }
    }
    // environment: TRUTH_MAP_PATH listing several directories, two of which hold a matching any.* map
    // (the first in listed order must win, whatever the hash order)
    for item in ctx.corpus.binaries().filter(|b| b.id.starts_with("b2b/")) {
        let ext = match item.cmd.as_str() {
            "truanm" => "anmm",
            "trustd" => "stdm",
            "trumsg" => "msgm",
            _ => "eclm",
        };
        let magic = match item.cmd.as_str() {
            "truanm" => "!anmmap",
            "trustd" => "!stdmap",
            "trumsg" => "!msgmap",
            _ => "!eclmap",
        };
        let mut c = scen::binary_roundtrip_case(item, &[], None, false);
        for (dir, alias) in [("mapdirA", "fromDirA"), ("mapdirB", "fromDirB"), ("mapdirC", "fromDirC")] {
            c.inputs.push(crate::case::Input::text(&format!("{}/any.{}", dir, ext), &format!("{}\n!ins_names\n0 {}\n1 {}One\n", magic, alias, alias)));
        }
        c.steps[0].env.push(("TRUTH_MAP_PATH".into(), "nonexistent:mapdirB:mapdirA:mapdirC:mapdirB:map".into()));
        c.name = format!("{} env=TRUTH_MAP_PATH(multi)", c.name);
        push(c);
    }
    for item in ctx.corpus.binaries() {
        push(scen::binary_roundtrip_case(item, &[], None, true));
        push(scen::binary_roundtrip_case(item, &[], None, false));
        if ctx.tier == Tier::Thorough {
            push(scen::binary_roundtrip_case(item, &["--no-blocks", "--no-intrinsics"], Some(40), true));
            push(scen::binary_roundtrip_case(item, &["--no-arguments", "--no-diff-switches", "--no-calls"], Some(120), true));
        }
    }
    out
}

pub fn run(ctx: &Ctx) -> CheckResult {
    let mut cases = scenarios(ctx);
    if let Ok(n) = std::env::var("TRUSIM_LIMIT") {
        cases.truncate(n.parse().unwrap_or(usize::MAX));
    }
    let (_r, stats, findings, herr) = par_map(ctx, &cases, |w, _, c| w.judge(c));
    let samples: Vec<_> = cases.iter().step_by((cases.len() / 3).max(1)).take(3).map(|c| json!({"name": c.name, "steps": c.steps.iter().map(|s| s.argv.join(" ")).collect::<Vec<_>>(), "keys": c.meta["keys"]})).collect();
    let mut extra = std::collections::BTreeMap::new();
    extra.insert("scenarios".into(), json!(cases.len()));
    extra.insert("keys_per_scenario".into(), json!(nkeys(ctx)));
    extra.insert("competition_scenarios".into(), json!(cases.iter().filter(|c| c.name.contains("competition")).count()));
    CheckResult {
        property: "C19".into(),
        level: "exploration",
        stats,
        findings,
        harness_errors: herr,
        rule: "each scenario (compile with debug info; compile->decompile->recompile of every harvested source and competition input; decompile->compile of every bundled binary) is run as fresh processes under K seed-drawn hash keys; a scenario is non-trivial when it ran under >= 2 distinct keys; distinct = distinct scenario fingerprint".into(),
        samples,
        extra,
        exhaustive: false,
        assumptions: vec!["std's RandomState draws its keys only from getrandom(2), which the shim answers from the run's key (checked by selftest-determinism)".into()],
    }
}
