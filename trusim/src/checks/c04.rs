//! C04 — any text input ends in success or a rendered diagnostic, never a crash.
//!
//! Simulated dimension: the reads a compile command makes.  (a) At the syscall: every open/read
//! event of the script, of `-m` / `#pragma mapfile` mapfiles, of the gamemap's target and of image
//! sources x {ENOENT, EACCES, EISDIR, EMFILE, EIO}, short reads, EINTR, chunked reads.  (b) In
//! storage: the script and the mapfiles as the disk returns them after truncation, byte faults,
//! duplicated/lost blocks, stray invalid-UTF-8 / NUL / CR bytes and torn mixes of two sources.
//! Monitors: O-term (panic, abort, stack overflow, hang, bug-severity or unrenderable diagnostic),
//! O-diag (failure <=> error diagnostic); read faults additionally: success => same outputs as the
//! fault-free run.

use crate::case::{Base, Case};
use crate::corrupt::{self, Corruption};
use crate::engine::*;
use crate::report::CheckResult;
use crate::rng::{self, Rng};
use crate::scen;
use serde_json::json;
use std::collections::BTreeMap;

pub fn run(ctx: &Ctx) -> CheckResult {
    let quick = ctx.tier == Tier::Quick;
    let items: Vec<_> = scen::source_items(&ctx.corpus).into_iter().cloned().collect();
    let mut bases: Vec<Case> = items
        .iter()
        .map(|item| {
            let mut c = scen::compile_case(item, false);
            c.property = "C04".into();
            c.oracle = "term".into();
            c
        })
        .collect();
    // a corpus map file read through `#pragma mapfile "map/any.*"` / gamemap indirection is attacked
    // by replacing the tree file with an explicit input of the same path
    for c in bases.iter_mut() {
        let text = c.inputs.iter().find(|i| i.path == scen::SRC).and_then(|i| if let Base::Text(t) = &i.base { Some(t.clone()) } else { None }).unwrap_or_default();
        for (prag, target) in [("map/any.anmm", "map/v4.anmm"), ("map/any.stdm", "map/th08.stdm"), ("map/any.msgm", "map/th06.msgm"), ("map/any.eclm", "map/th06.eclm")] {
            if text.contains(prag) {
                c.inputs.push(crate::case::Input::corpus(prag));
                if ctx.corpus.tree.contains_key(target) {
                    c.inputs.push(crate::case::Input::corpus(target));
                }
            }
        }
    }
    // configuration / environment variants of one compilable scenario per tool: missing or odd inputs,
    // outputs that cannot be created, mapfile arguments that are not files.  Same monitors.
    let mut env_cases: Vec<Case> = vec![];
    {
        let mut seen_tools: std::collections::HashSet<String> = Default::default();
        for (item, base) in items.iter().zip(bases.iter()) {
            let tool_key = format!("{}:{:?}", item.cmd, item.compile_args.iter().filter(|a| a.starts_with("--m") || a.starts_with("--e")).collect::<Vec<_>>());
            if !item.id.starts_with("extra/") && !item.id.contains("compile_simple") && !item.id.contains("basic") && !item.id.contains("named") {
                continue;
            }
            if !seen_tools.insert(tool_key) {
                continue;
            }
            let mk = |name: &str, f: &dyn Fn(&mut Case)| {
                let mut c = base.clone();
                c.name = format!("{} [config:{}]", base.name, name);
                f(&mut c);
                c
            };
            let arg_pos = |c: &Case, a: &str| c.steps[0].argv.iter().position(|x| x == a);
            env_cases.push(mk("missing-input", &|c| c.inputs.retain(|i| i.path != scen::SRC)));
            env_cases.push(mk("input-is-directory", &|c| {
                c.inputs.retain(|i| i.path != scen::SRC);
                c.inputs.push(crate::case::Input::text("input.spec/inner.txt", "x"));
            }));
            env_cases.push(mk("empty-input", &|c| {
                for i in c.inputs.iter_mut() {
                    if i.path == scen::SRC {
                        i.base = Base::Text(String::new());
                    }
                }
            }));
            env_cases.push(mk("output-dir-missing", &|c| {
                if let Some(p) = arg_pos(c, "-o") {
                    c.steps[0].argv[p + 1] = "no/such/dir/out.bin".into();
                }
            }));
            env_cases.push(mk("output-is-directory", &|c| c.inputs.push(crate::case::Input::text("out.bin/inner.txt", "x"))));
            env_cases.push(mk("mapfile-missing", &|c| c.steps[0].argv.extend(["-m".to_string(), "nonexistent.map".to_string()])));
            env_cases.push(mk("mapfile-is-directory", &|c| c.steps[0].argv.extend(["-m".to_string(), "map".to_string()])));
            env_cases.push(mk("mapfile-is-binary", &|c| {
                c.inputs.push(crate::case::Input::corpus("tests/integration/bits-2-bits/th12-registers.anm"));
                c.steps[0].argv.extend(["-m".to_string(), "tests/integration/bits-2-bits/th12-registers.anm".to_string()]);
            }));
            env_cases.push(mk("bad-game", &|c| {
                if let Some(p) = arg_pos(c, "-g") {
                    c.steps[0].argv[p + 1] = "th99".into();
                }
            }));
            env_cases.push(mk("pc98-game", &|c| {
                if let Some(p) = arg_pos(c, "-g") {
                    c.steps[0].argv[p + 1] = "th05".into();
                }
            }));
            env_cases.push(mk("wrong-game", &|c| {
                if let Some(p) = arg_pos(c, "-g") {
                    c.steps[0].argv[p + 1] = if c.steps[0].argv[p + 1] == "th18" { "th06".into() } else { "th18".into() };
                }
            }));
            env_cases.push(mk("output-is-the-script", &|c| {
                if let Some(p) = arg_pos(c, "-o") {
                    c.steps[0].argv[p + 1] = scen::SRC.into();
                }
            }));
            env_cases.push(mk("output-given-twice", &|c| c.steps[0].argv.extend(["-o".to_string(), "second.bin".to_string()])));
            env_cases.push(mk("game-given-twice", &|c| c.steps[0].argv.extend(["-g".to_string(), "th13".to_string()])));
            env_cases.push(mk("debug-info-given-twice", &|c| c.steps[0].argv.extend(["--output-debug-info".to_string(), "a.json".to_string(), "--output-debug-info".to_string(), "b.json".to_string()])));
            env_cases.push(mk("debug-info-path-is-the-output", &|c| c.steps[0].argv.extend(["--output-debug-info".to_string(), scen::OUT.to_string()])));
            env_cases.push(mk("same-mapfile-twice", &|c| {
                let ms: Vec<String> = c.steps[0].argv.iter().filter(|a| a.starts_with("mapfile-")).cloned().collect();
                for m in ms {
                    c.steps[0].argv.extend(["-m".to_string(), m]);
                }
            }));
            env_cases.push(mk("script-given-as-dot-slash-and-absolute-mapfiles", &|c| {
                for a in c.steps[0].argv.iter_mut() {
                    if a == scen::SRC {
                        *a = format!("./{}", scen::SRC);
                    } else if a.starts_with("mapfile-") {
                        *a = format!("{{ROOT}}/{}", a);
                    }
                }
            }));
            env_cases.push(mk("unknown-flag", &|c| c.steps[0].argv.push("--no-such-flag".into())));
            env_cases.push(mk("extra-positional", &|c| c.steps[0].argv.push("stray".into())));
            env_cases.push(mk("debug-info-dir-missing", &|c| c.steps[0].argv.extend(["--output-debug-info".to_string(), "no/dir/d.json".to_string()])));
            env_cases.push(mk("no-builtin-mapfiles", &|c| c.steps[0].argv.push("--no-builtin-mapfiles".into())));
            // gamemaps whose target leads back to a gamemap (itself, a two-file cycle, a link back), is
            // missing, or is a directory
            let game_num = |c: &Case| -> String { arg_pos(c, "-g").map(|p| c.steps[0].argv[p + 1].trim_start_matches("th").trim_start_matches('0').to_string()).unwrap_or_default() };
            let gm = |c: &Case, target: &str| format!("!gamemap\n!game_files\n{} {}\n", game_num(c), target);
            env_cases.push(mk("gamemap-names-itself", &|c| {
                let t = gm(c, "loop.map");
                c.inputs.push(crate::case::Input::text("loop.map", &t));
                c.steps[0].argv.extend(["-m".to_string(), "loop.map".to_string()]);
            }));
            env_cases.push(mk("gamemap-two-file-cycle", &|c| {
                let (a, b) = (gm(c, "gm-b.map"), gm(c, "gm-a.map"));
                c.inputs.push(crate::case::Input::text("gm-a.map", &a));
                c.inputs.push(crate::case::Input::text("gm-b.map", &b));
                c.steps[0].argv.extend(["-m".to_string(), "gm-a.map".to_string()]);
            }));
            env_cases.push(mk("gamemap-target-links-back", &|c| {
                let t = gm(c, "target.map");
                c.inputs.push(crate::case::Input::text("gm.map", &t));
                c.inputs.push(crate::case::Input::symlink("target.map", "gm.map"));
                c.steps[0].argv.extend(["-m".to_string(), "gm.map".to_string()]);
            }));
            env_cases.push(mk("gamemap-target-links-back-via-pragma", &|c| {
                let t = gm(c, "target.map");
                c.inputs.push(crate::case::Input::text("gm.map", &t));
                c.inputs.push(crate::case::Input::symlink("target.map", "gm.map"));
                for i in c.inputs.iter_mut() {
                    if i.path == scen::SRC {
                        if let Base::Text(t) = &i.base {
                            i.base = Base::Text(format!("#pragma mapfile \"gm.map\"\n{}", t));
                        }
                    }
                }
            }));
            // a gamemap whose (well-formed) target draws diagnostics with source locations: they must
            // point into the target file, at lines that exist there
            for (tag, body) in [("warns", "!nosuchsection\n1 a\n\n\n\n\n\n!gvar_types\n10000 ?\n"), ("errors", "\n\n\n\n\n\n\n\n!ins_signatures\n900 Q?(\n901 S(enum=\"Nope\")\n")] {
                env_cases.push(mk(&format!("gamemap-target-{}", tag), &|c| {
                    let t = gm(c, "gm-target.map");
                    c.inputs.push(crate::case::Input::text("gm.map", &t));
                    let magic = match c.steps[0].argv[0].as_str() {
                        "truanm" => "!anmmap",
                        "trustd" => "!stdmap",
                        "trumsg" => "!msgmap",
                        _ => "!eclmap",
                    };
                    c.inputs.push(crate::case::Input::text("gm-target.map", &format!("{}\n{}", magic, body)));
                    c.steps[0].argv.extend(["-m".to_string(), "gm.map".to_string()]);
                }));
                // a gamemap is only an index: what truth has to say about the target must be what it
                // says when the target is named directly (same text, same file, same line and column)
                let mut eqc = env_cases.last().unwrap().clone();
                let mut reference_argv = eqc.steps[0].argv.clone();
                if let Some(l) = reference_argv.last_mut() {
                    *l = "gm-target.map".to_string();
                }
                eqc.oracle = "stale".into();
                eqc.name = format!("{} [vs. target named directly]", eqc.name);
                eqc.meta = serde_json::json!({"stale": [], "variant": "gamemap-transparent", "compare_stderr": true, "reference_steps": [reference_argv]});
                env_cases.push(eqc);
            }
            env_cases.push(mk("gamemap-target-missing", &|c| {
                let t = gm(c, "nowhere.map");
                c.inputs.push(crate::case::Input::text("gm.map", &t));
                c.steps[0].argv.extend(["-m".to_string(), "gm.map".to_string()]);
            }));
            env_cases.push(mk("gamemap-target-is-directory", &|c| {
                let t = gm(c, "map");
                c.inputs.push(crate::case::Input::text("gm.map", &t));
                c.steps[0].argv.extend(["-m".to_string(), "gm.map".to_string()]);
            }));
            env_cases.push(mk("image-source-missing", &|c| c.steps[0].argv.extend(["-i".to_string(), "no-such-source".to_string()])));
        }
    }
    // how the mapfile arrives is a configuration dimension of its own: every scenario that passes
    // mapfiles with -m also runs with the same files named by `#pragma mapfile` lines instead
    // (pragma mapfiles are loaded later than -m ones, after the script has been read)
    for base in bases.iter() {
        let argv = &base.steps[0].argv;
        let ms: Vec<String> = argv.iter().enumerate().filter(|(k, a)| *k > 0 && argv[*k - 1] == "-m" && a.starts_with("mapfile-")).map(|(_, a)| a.clone()).collect();
        if ms.is_empty() {
            continue;
        }
        let mut c = base.clone();
        c.name = format!("{} [config:mapfiles-via-pragma]", base.name);
        let mut k = 0;
        while k < c.steps[0].argv.len() {
            if c.steps[0].argv[k] == "-m" && c.steps[0].argv.get(k + 1).map_or(false, |a| a.starts_with("mapfile-")) {
                c.steps[0].argv.drain(k..k + 2);
            } else {
                k += 1;
            }
        }
        let pragmas: String = ms.iter().map(|m| format!("#pragma mapfile \"{}\"\n", m)).collect();
        for i in c.inputs.iter_mut() {
            if i.path == scen::SRC {
                if let Base::Text(t) = &i.base {
                    i.base = Base::Text(format!("{}{}", pragmas, t));
                }
            }
        }
        env_cases.push(c);
    }
    let (_r, st_env, f_env, h_env) = par_map(ctx, &env_cases, |w, _, c| w.judge(c));
    // fault-free baseline of everything (O-term / O-diag on the pristine corpus, incl. compile-fail snippets)
    let (_r, mut stats, mut findings, mut herr) = par_map(ctx, &bases, |w, _, c| w.judge(c));

    stats.merge(st_env);
    findings.extend(f_env);
    herr.extend(h_env);
    // ---- storage corruptions
    // which inputs of a case are text under attack: the script, its mapfiles, pragma/gamemap map files
    let attackable = |c: &Case| -> Vec<usize> { c.inputs.iter().enumerate().filter(|(_, i)| !matches!(i.base, Base::Tree(_))).map(|(k, _)| k).collect() };
    let n_items = if quick { 56 } else { bases.len() };
    let mut order: Vec<usize> = (0..bases.len()).collect();
    Rng::new(rng::mix(ctx.seed, "c04-items", 0)).shuffle(&mut order);
    // half hand-written (competition / feature) items, half harvested + generated ones, both shuffled by seed
    if n_items < order.len() {
        let extras: Vec<usize> = order.iter().copied().filter(|&i| bases[i].name.contains("extra/")).take(n_items / 2).collect();
        let rest: Vec<usize> = order.iter().copied().filter(|&i| !bases[i].name.contains("extra/")).take(n_items - extras.len()).collect();
        order = extras;
        order.extend(rest);
    }
    order.sort();
    let per_file = if quick { 85 } else { 600 };
    let mut work: Vec<(usize, usize, Vec<Corruption>)> = vec![];
    let mut n_space = 0usize;
    let mut kinds: BTreeMap<&'static str, u64> = BTreeMap::new();
    let src_peers: Vec<String> = vec!["tests/integration/resources/th12-embedded-image-source.anm.spec".into(), "map/v4.anmm".into()];
    for &bi in &order {
        let c = &bases[bi];
        let files = crate::case::materialise(&c.inputs, &ctx.corpus);
        for ii in attackable(c) {
            let path = &c.inputs[ii].path;
            let data = match files.iter().find(|(p, _)| p == path) {
                Some((_, d)) => d.clone(),
                None => continue,
            };
            let all = corrupt::text_faults(&data, &src_peers);
            n_space += all.len();
            let want = if path == scen::SRC { per_file } else { per_file / 3 };
            let seed = rng::mix(ctx.seed, &format!("{}:{}", c.name, path), 4);
            let far = (all.len() / want.max(1)).max(1);
            let mut sel = corrupt::select(&all, 0, 1, far, seed);
            if !quick {
                let mut r = Rng::new(seed ^ 0xD0B1E);
                sel.extend(corrupt::double_faults(&all, want / 6, &mut r));
            }
            for s in &sel {
                *kinds.entry(s.kind).or_insert(0) += 1;
            }
            for ch in sel.chunks(48) {
                work.push((bi, ii, ch.to_vec()));
            }
        }
    }
    // torn writes between two sources of the same format: the head of one script followed by the tail
    // of another, cut at statement boundaries.  Sources of one format share their header, so this
    // recombines statements of different scripts into programs no test contains.
    let n_torn = if quick { 6 } else { 120 };
    let mut n_torn_total = 0usize;
    for (bi, c) in bases.iter().enumerate() {
        let ii = match c.inputs.iter().position(|i| i.path == scen::SRC) {
            Some(k) => k,
            None => continue,
        };
        let text = match &c.inputs[ii].base {
            Base::Text(t) => t.as_bytes().to_vec(),
            _ => continue,
        };
        let fmt = items[bi].format.clone();
        let peers: Vec<usize> = (0..items.len()).filter(|&j| j != bi && items[j].format == fmt).collect();
        if peers.is_empty() {
            continue;
        }
        let cuts = |t: &[u8]| -> Vec<usize> { (1..t.len()).filter(|&k| matches!(t[k - 1], b';' | b'\n' | b'{' | b'}' | b',' | b'(')).collect() };
        let my_cuts = cuts(&text);
        if my_cuts.is_empty() {
            continue;
        }
        let mut r = Rng::new(rng::mix(ctx.seed, &c.name, 44));
        let mut vs = vec![];
        for _ in 0..n_torn {
            let pj = *r.pick(&peers);
            let other = items[pj].source.clone().unwrap_or_default().into_bytes();
            let oc = cuts(&other);
            if oc.is_empty() {
                continue;
            }
            // bias both cut points towards the script body (the last 60% of the file)
            let at = my_cuts[(my_cuts.len() * 2 / 5 + r.below((my_cuts.len() - my_cuts.len() * 2 / 5) as u64) as usize).min(my_cuts.len() - 1)];
            let from = oc[(oc.len() * 2 / 5 + r.below((oc.len() - oc.len() * 2 / 5) as u64) as usize).min(oc.len() - 1)];
            vs.push(Corruption { ops: vec![crate::case::CorruptOp::Trunc { at }, crate::case::CorruptOp::Ins { off: at, bytes: other[from..].to_vec() }], off: at, kind: "torn-with-peer-source" });
        }
        n_torn_total += vs.len();
        *kinds.entry("torn-with-peer-source").or_insert(0) += vs.len() as u64;
        for ch in vs.chunks(48) {
            work.push((bi, ii, ch.to_vec()));
        }
    }
    let n_selected: usize = work.iter().map(|w| w.2.len()).sum();
    let (_r, st, f2, h2) = par_map(ctx, &work, |w, _, (bi, ii, vs)| {
        for c in vs {
            let case = apply_variant(&bases[*bi], &Variant { corrupt: Some((*ii, c.ops.clone())), plan: None, tag: format!("{}@{}", c.kind, c.off) });
            w.judge(&case);
        }
    });
    stats.merge(st);
    findings.extend(f2);
    herr.extend(h2);

    // ---- read-time faults
    let rt_items: Vec<usize> = if quick { thin(&order, 14, ctx.seed) } else { (0..bases.len()).collect() };
    let (_r, st, f3, h3) = par_map(ctx, &rt_items, |w, _, bi| {
        let base = &bases[*bi];
        let g = w.golden(base);
        if g.is_empty() {
            return;
        }
        let mut vs = enumerate_faults(0, &g[0], &FaultSpace { read_side: true, write_side: false, meta_side: true, budgets: Budgets::Boundaries, seed: 0 });
        vs.extend(noise_variants(0, true, false));
        if quick {
            vs = thin(&vs, 40, rng::mix(w.ctx.seed, &base.name, 5));
        }
        for v in vs {
            let case = apply_variant(base, &v);
            w.judge(&case);
        }
    });
    stats.merge(st);
    findings.extend(f3);
    herr.extend(h3);

    let mut extra = BTreeMap::new();
    extra.insert("compile_scenarios".into(), json!(bases.len()));
    extra.insert("configuration_variants".into(), json!(env_cases.len()));
    extra.insert("scenarios_attacked_in_storage".into(), json!(order.len()));
    extra.insert("single_fault_space_size_of_attacked_files".into(), json!(n_space));
    extra.insert("storage_faults_selected".into(), json!(n_selected));
    extra.insert("torn_mixes_of_two_corpus_sources".into(), json!(n_torn_total));
    extra.insert("storage_fault_kinds_selected".into(), json!(kinds));
    extra.insert("scenarios_attacked_at_read_time".into(), json!(rt_items.len()));
    let samples: Vec<_> = work.iter().step_by((work.len() / 3).max(1)).take(3).map(|(bi, ii, vs)| json!({"scenario": bases[*bi].name, "file": bases[*bi].inputs[*ii].path, "command": bases[*bi].steps[0].argv.join(" "), "corruption": vs[0].ops})).collect();
    CheckResult {
        property: "C04".into(),
        level: "fault_enumeration",
        stats,
        findings,
        harness_errors: herr,
        rule: "fault-free run of every corpus source (incl. compile-fail snippets and the competition set); storage faults of the script, its -m mapfiles and the pragma/gamemap map files (truncation at every offset, 13 byte values per offset, dup/del blocks, inserted invalid UTF-8 / NUL / CR / BOM, torn mixes) - a seed-rotated slice of the enumerated space, the union over seeds is complete; read-time faults on every open/read event (5 errnos, short reads) plus EINTR periods and chunkings; non-trivial = input corrupted, fault fired, or the command failed; distinct = (scenario, file, corruption/plan)".into(),
        samples,
        extra,
        exhaustive: false,
        assumptions: vec!["grammar-directed generation of ill-typed programs, extreme literals and deep nesting is pure input-space exploration and is not covered".into(), "release profile, as shipped".into()],
    }
}
