pub mod c01;
pub mod c03;
pub mod c04;
pub mod c16;
pub mod c17;
pub mod c18;
pub mod c19;
pub mod fields;
