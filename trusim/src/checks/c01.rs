//! C01 — decompile then recompile reproduces the binary bit-for-bit.
//!
//! Simulated dimension: the round trip as a two-command pipeline through the file system, for every
//! bundled binary and every compiler output of the corpus x decompile option subsets x formatter
//! widths x mapfile configurations (none / -m / TRUTH_MAP_PATH), fault-free and under every single
//! I/O fault of either command.  Oracle: if decompile exits 0 without printing a warning, the
//! compile must exit 0 and reproduce the original bytes; under faults, success => same outputs as
//! the fault-free run.

use crate::case::Case;
use crate::engine::*;
use crate::oracle::*;
use crate::report::CheckResult;
use crate::rng::{self, Rng};
use crate::scen;
use serde_json::json;
use std::collections::BTreeMap;

pub const FLAGS: [&str; 5] = ["--no-blocks", "--no-intrinsics", "--no-arguments", "--no-diff-switches", "--no-calls"];

/// meta: {"orig_step": k | null, "orig_file": path, "dec": i, "comp": j}
pub fn oracle_roundtrip(w: &mut Worker, case: &Case) -> Vec<Violation> {
    let outs = w.golden(case);
    let mut v = vec![];
    let dec = case.meta.get("dec").and_then(|x| x.as_u64()).unwrap_or(0) as usize;
    let comp = case.meta.get("comp").and_then(|x| x.as_u64()).unwrap_or(1) as usize;
    let orig_file = case.meta.get("orig_file").and_then(|x| x.as_str()).unwrap_or("").to_string();
    let original: Vec<u8> = match case.meta.get("orig_step").and_then(|x| x.as_u64()) {
        Some(k) => match outs.get(k as usize).filter(|o| o.ok()).and_then(|o| o.files.get(&orig_file)) {
            Some(b) => b.clone(),
            None => {
                w.stats.probe("roundtrip:first-compile-failed(skip)");
                return v;
            }
        },
        None => match crate::case::materialise(&case.inputs, &w.ctx.corpus).into_iter().find(|(p, _)| *p == orig_file) {
            Some((_, d)) => d.as_ref().clone(),
            None => return v,
        },
    };
    let d = match outs.get(dec) {
        Some(d) => d,
        None => return v,
    };
    if !d.ok() {
        // a decompile that reports an error is exempt (e.g. sources with raw jump offsets compile to
        // files whose jumps truth then refuses); one that crashes or hangs is not a report of anything
        let crash = term_violations(&w.ctx.cfg, d);
        if !crash.is_empty() {
            w.stats.nontrivial.insert(rng::hash_bytes(case.name.as_bytes()));
            return crash;
        }
        w.stats.probe("roundtrip:decompile-failed(exempt)");
        return v;
    }
    if has_warning(&diagnostics(&d.stderr)) {
        w.stats.probe("roundtrip:decompile-warned(exempt)");
        return v;
    }
    w.stats.nontrivial.insert(rng::hash_bytes(case.name.as_bytes()));
    // the class names the tool *and* the corpus item, so that a known finding on one input never
    // hides a different round-trip failure
    let tool = format!("{}:{}", case.steps[dec].argv[0], case.meta.get("item").and_then(|x| x.as_str()).unwrap_or("?"));
    let c = match outs.get(comp) {
        Some(c) => c,
        None => return v,
    };
    if !c.ok() {
        let crash = term_violations(&w.ctx.cfg, c);
        if !crash.is_empty() {
            return crash;
        }
        v.push(Violation { class: format!("roundtrip:recompile-failed:{}", tool), detail: format!("decompile succeeded silently ({}), but: {}", case.steps[dec].argv.join(" "), short(&c.stderr, 500)) });
        return v;
    }
    let out_file = case.meta.get("out_file").and_then(|x| x.as_str()).unwrap_or(scen::OUT2);
    match c.files.get(out_file) {
        Some(b) if *b == original => w.stats.probe("roundtrip:identical"),
        Some(b) => {
            let first = b.iter().zip(original.iter()).position(|(x, y)| x != y).unwrap_or(b.len().min(original.len()));
            v.push(Violation { class: format!("roundtrip:differs:{}", tool), detail: format!("{} -> {} bytes, first difference at offset {}; decompile: {}", original.len(), b.len(), first, case.steps[dec].argv.join(" ")) });
        }
        None => v.push(Violation { class: format!("roundtrip:no-output:{}", tool), detail: String::new() }),
    }
    v
}

fn flag_subset(mask: u32) -> Vec<&'static str> {
    (0..5).filter(|b| mask & (1 << b) != 0).map(|b| FLAGS[b]).collect()
}

pub fn run(ctx: &Ctx) -> CheckResult {
    let quick = ctx.tier == Tier::Quick;
    let mut cases: Vec<Case> = vec![];
    let widths_all: [u32; 6] = [1, 20, 40, 80, 100, 200];

    // ---- (1) bundled binaries
    let bins: Vec<_> = ctx.corpus.binaries().filter(|b| b.id.starts_with("b2b/")).collect();
    for item in &bins {
        let mut rng = Rng::new(rng::mix(ctx.seed, &item.id, 101));
        let masks: Vec<u32> = if quick {
            let mut m = vec![0u32, 31];
            while m.len() < 5 {
                let x = rng.below(32) as u32;
                if !m.contains(&x) {
                    m.push(x);
                }
            }
            m
        } else {
            (0..32).collect()
        };
        for (mi, mask) in masks.iter().enumerate() {
            let widths: Vec<u32> = if quick { vec![*rng.pick(&widths_all), rng.range(1, 200) as u32] } else { let mut w = widths_all.to_vec(); w.push(rng.range(1, 200) as u32); w };
            for (wi, wd) in widths.iter().enumerate() {
                // mapfile configuration: 0 = -m map, 1 = none, 2 = TRUTH_MAP_PATH
                let cfg = if quick { (mi + wi) % 3 } else { (mi + wi + (*mask as usize)) % 3 };
                let mut c = scen::binary_roundtrip_case(item, &flag_subset(*mask), Some(*wd), cfg == 0);
                if cfg == 2 {
                    c.steps[0].env.push(("TRUTH_MAP_PATH".into(), "map".into()));
                    c.name.push_str(" env=TRUTH_MAP_PATH");
                }
                // every other configuration decompiles the documented way: `decompile FILE > out.txt`
                if (mi + wi) % 2 == 1 {
                    scen::decompile_to_stdout(&mut c.steps[0]);
                    c.name.push_str(" >stdout");
                }
                c.property = "C01".into();
                c.oracle = "roundtrip".into();
                c.meta = json!({"orig_step": null, "orig_file": item.path.clone().unwrap(), "dec": 0, "comp": 1, "item": item.id});
                cases.push(c);
            }
        }
    }
    // ---- (1b) recompiling in place: the output path is the image source itself
    for item in ctx.corpus.binaries().filter(|b| b.cmd == "truanm") {
        let mut c = scen::binary_roundtrip_case(item, &[], None, true);
        let path = item.path.clone().unwrap();
        if let Some(p) = c.steps[1].argv.iter().position(|a| a == "-o") {
            c.steps[1].argv[p + 1] = path.clone();
        }
        c.name = format!("{} [recompiled in place: -o is the image source]", c.name);
        c.property = "C01".into();
        c.oracle = "roundtrip".into();
        c.meta = json!({"orig_step": null, "orig_file": path, "dec": 0, "comp": 1, "item": item.id, "out_file": path});
        cases.push(c);
    }
    // ---- (1c) `decompile FILE > out` and `decompile FILE -o out` write the same text
    for item in &bins {
        let mut c = scen::binary_roundtrip_case(item, &[], None, true);
        c.steps.truncate(1);
        let reference_argv = c.steps[0].argv.clone();
        scen::decompile_to_stdout(&mut c.steps[0]);
        c.property = "C01".into();
        c.oracle = "stale".into();
        c.name = format!("{} [> file vs -o file]", c.name);
        c.meta = json!({"stale": [], "variant": "stdout-vs-o", "reference_steps": [reference_argv], "reference_no_stdout_redirect": true});
        cases.push(c);
    }
    // ---- (1d) the decompiled script lives in another directory than the one the commands run in, and a
    // different file with the mapfile's relative name sits next to it: `#pragma mapfile` paths mean what
    // `-m` meant (relative to the working directory), so the decoy must be ignored
    for item in bins.iter().filter(|b| b.mapfile.is_some()) {
        let mut c = scen::binary_roundtrip_case(item, &[], None, true);
        let dec_path = format!("proj/{}", scen::DEC);
        for st in c.steps.iter_mut() {
            for a in st.argv.iter_mut() {
                if a == scen::DEC {
                    *a = dec_path.clone();
                }
            }
        }
        let m = item.mapfile.clone().unwrap();
        let magic = match item.cmd.as_str() {
            "truanm" => "!anmmap",
            "trustd" => "!stdmap",
            "trumsg" => "!msgmap",
            _ => "!eclmap",
        };
        let mut decoy = format!("{}\n!ins_signatures\n", magic);
        for op in 0..48 {
            decoy.push_str(&format!("{} s--\n", op));
        }
        decoy.push_str("!ins_names\n0 decoyZero\n1 decoyOne\n2 decoyTwo\n");
        c.inputs.push(crate::case::Input::text(&format!("proj/{}", m), &decoy));
        c.inputs.push(crate::case::Input::text("proj/.keep", ""));
        c.name = format!("{} [script in proj/, decoy proj/{}]", c.name, m);
        c.property = "C01".into();
        c.oracle = "roundtrip".into();
        c.meta = json!({"orig_step": null, "orig_file": item.path.clone().unwrap(), "dec": 0, "comp": 1, "item": item.id});
        cases.push(c);
    }
    // ---- (1e) two mapfiles that disagree about signatures, given in an order that is not their sorted
    // order (the later one overrides): the decompiled text must name them in load order, because the
    // recompile -- from the text's own #pragma lines, no -m -- applies them in the order it finds them
    for item in scen::source_items(&ctx.corpus).into_iter().filter(|i| i.id.starts_with("gen/") && i.mapfiles.len() == 1 && !i.id.contains("msg")).step_by(if quick { 6 } else { 1 }) {
        let mut c = scen::source_roundtrip_case(item, &[], None);
        // the base map: every dword integer of the item's signatures narrowed to a padded word
        let base_map: String = item.mapfiles[0]
            .lines()
            .map(|l| {
                let mut it = l.splitn(2, ' ');
                match (it.next().and_then(|a| a.parse::<i64>().ok()), it.next()) {
                    (Some(op), Some(sig)) if !sig.contains('(') && sig.contains('S') => format!("{} {}", op, sig.replace('S', "s--")),
                    _ => l.to_string(),
                }
            })
            .collect::<Vec<_>>()
            .join("\n");
        c.inputs.push(crate::case::Input::text("zz-base.map", &base_map));
        for k in 0..2 {
            if let Some(p) = c.steps[k].argv.iter().position(|a| a == "-m") {
                c.steps[k].argv.insert(p, "zz-base.map".into());
                c.steps[k].argv.insert(p, "-m".into());
            }
        }
        let mut k = 0;
        while k < c.steps[2].argv.len() {
            if c.steps[2].argv[k] == "-m" {
                c.steps[2].argv.drain(k..k + 2);
            } else {
                k += 1;
            }
        }
        c.name = format!("{} [-m zz-base.map -m mapfile-1; recompiled from the text's pragmas]", c.name);
        c.property = "C01".into();
        c.oracle = "roundtrip".into();
        c.meta = json!({"orig_step": 0, "orig_file": scen::OUT, "dec": 1, "comp": 2, "item": item.id});
        cases.push(c);
    }
    // ---- (2) compiler outputs of the corpus
    for item in scen::source_items(&ctx.corpus) {
        if item.tags.iter().any(|t| t == "no-roundtrip") {
            continue;
        }
        let mut rng = Rng::new(rng::mix(ctx.seed, &item.id, 102));
        let n = if quick { 2 } else { 6 };
        for k in 0..n {
            let mask = if k == 0 { 0 } else { rng.below(32) as u32 };
            let width = if k == 0 { None } else { Some(rng.range(1, 200) as u32) };
            let mut c = scen::source_roundtrip_case(item, &flag_subset(mask), width);
            c.property = "C01".into();
            c.oracle = "roundtrip".into();
            c.meta = json!({"orig_step": 0, "orig_file": scen::OUT, "dec": 1, "comp": 2, "item": item.id});
            cases.push(c);
        }
    }
    let (_r, mut stats, mut findings, mut herr) = par_map(ctx, &cases, |w, _, c| w.judge(c));

    // ---- (2b) initial-state variation: the decompile output path (and the recompile's) already exist
    let mut stale_cases: Vec<Case> = vec![];
    for item in &bins {
        let mut c = scen::binary_roundtrip_case(item, &[], None, true);
        c.property = "C01".into();
        c.oracle = "stale".into();
        c.name = format!("{} [stale outputs]", c.name);
        let junk: Vec<u8> = (0..70000u32).map(|k| if k % 61 == 60 { b'\n' } else { b'a' + (k % 26) as u8 }).collect();
        c.inputs.push(crate::case::Input::bytes(scen::DEC, junk.clone()));
        c.inputs.push(crate::case::Input::bytes(scen::OUT2, junk));
        c.meta = json!({"stale": [scen::DEC, scen::OUT2]});
        stale_cases.push(c);
    }
    let (_r, st_s, f_s, h_s) = par_map(ctx, &stale_cases, |w, _, c| {
        w.judge(c);
        let mut fresh = c.clone();
        fresh.inputs.retain(|i| i.path != scen::DEC && i.path != scen::OUT2);
        fresh.name = fresh.name.replace(" [stale outputs]", "");
        for empty in [false, true] {
            if let Some(pc) = prefix_stale_case(w, &fresh, empty) {
                w.judge(&pc);
            }
        }
    });
    stats.merge(st_s);
    findings.extend(f_s);
    herr.extend(h_s);

    // ---- (3) fault campaign: decompile's text output (write side) and the compile (read + write side)
    let mut jobs: Vec<FaultJob> = vec![];
    let mut by_tool: BTreeMap<String, Vec<usize>> = BTreeMap::new();
    for (i, b) in bins.iter().enumerate() {
        by_tool.entry(format!("{}:{}", b.cmd, b.game)).or_default().push(i);
    }
    for (cls, idxs) in &by_tool {
        let rot = rng::mix(ctx.seed, cls, 103) as usize;
        let chosen: Vec<usize> = if quick { vec![idxs[rot % idxs.len()]] } else { idxs.clone() };
        for i in chosen {
            let mut base = scen::binary_roundtrip_case(bins[i], &[], None, true);
            base.property = "C01".into();
            let seed = rng::mix(ctx.seed, &base.name, 104);
            // (read side too: a short or interrupted read of the binary must not change the text)
            jobs.push(FaultJob { base: base.clone(), step: 0, space: FaultSpace { read_side: true, write_side: true, meta_side: false, budgets: if quick { Budgets::BoundariesPlus(12) } else { Budgets::Complete }, seed }, noise: true, max_variants: 0 });
            // the same with the text going to a redirected stdout
            let mut via_stdout = base.clone();
            scen::decompile_to_stdout(&mut via_stdout.steps[0]);
            via_stdout.name.push_str(" >stdout");
            jobs.push(FaultJob { base: via_stdout, step: 0, space: FaultSpace { read_side: false, write_side: true, meta_side: false, budgets: if quick { Budgets::Boundaries } else { Budgets::BoundariesPlus(64) }, seed }, noise: !quick, max_variants: 0 });
            jobs.push(FaultJob { base, step: 1, space: FaultSpace { read_side: true, write_side: true, meta_side: false, budgets: if quick { Budgets::Boundaries } else { Budgets::BoundariesPlus(48) }, seed }, noise: true, max_variants: if quick { 120 } else { 0 } });
        }
    }
    // ANM files with embedded images (one write larger than BufWriter's capacity, then more entries):
    // the recompile's write side under short writes, chunking, EINTR and hard faults
    for item in ctx.corpus.binaries().filter(|b| b.cmd == "truanm" && b.id.starts_with("res/th12-embedded")) {
        let mut base = scen::binary_roundtrip_case(item, &[], None, true);
        base.property = "C01".into();
        let seed = rng::mix(ctx.seed, &base.name, 106);
        jobs.push(FaultJob { base, step: 1, space: FaultSpace { read_side: false, write_side: true, meta_side: false, budgets: if quick { Budgets::Boundaries } else { Budgets::BoundariesPlus(64) }, seed }, noise: true, max_variants: if quick { 80 } else { 0 } });
    }
    // the big decompile output (> 8 KiB of text: BufWriter spills mid-stream)
    for item in ctx.corpus.sources().filter(|i| i.id.starts_with("extra/big")) {
        let mut base = scen::source_roundtrip_case(item, &[], None);
        base.property = "C01".into();
        let seed = rng::mix(ctx.seed, &base.name, 105);
        jobs.push(FaultJob { base, step: 1, space: FaultSpace { read_side: false, write_side: true, meta_side: false, budgets: if quick { Budgets::BoundariesPlus(8) } else { Budgets::BoundariesPlus(256) }, seed }, noise: !quick, max_variants: 0 });
    }
    let camp = run_fault_campaign(ctx, &jobs);
    stats.merge(camp.stats);
    findings.extend(camp.findings);
    herr.extend(camp.harness_errors);

    let mut extra = BTreeMap::new();
    extra.insert("roundtrip_cases".into(), json!(cases.len()));
    extra.insert("bundled_binaries".into(), json!(bins.len()));
    extra.insert("fault_jobs".into(), json!(jobs.len()));
    extra.insert("fault_variants".into(), json!(camp.variants));
    let mut samples = camp.samples;
    for c in cases.iter().step_by((cases.len() / 2).max(1)).take(2) {
        samples.push(json!({"roundtrip": c.steps.iter().map(|s| s.argv.join(" ")).collect::<Vec<_>>(), "env": c.steps[0].env}));
    }
    CheckResult {
        property: "C01".into(),
        level: "fault_enumeration",
        stats,
        findings,
        harness_errors: herr,
        rule: "(a) fault-free round trips: bundled binaries x decompile option subsets (all 32 in thorough) x widths x {-m map, no map, TRUTH_MAP_PATH}; compile->decompile->recompile of every compilable corpus source; non-trivial = decompile succeeded without warnings so the identity was actually demanded. (b) fault campaign: decompile writing its text (-o) and the recompile (read + write side), one run per (event x errno), short transfer, disk-full budget, EINTR period, chunking; non-trivial = fault fired".into(),
        samples,
        extra,
        exhaustive: false,
        assumptions: vec![
            "exemption is the over-approximation 'decompile printed any warning'".into(),
            "instruction streams are those of the corpus; generating new jump shapes is pure program-space exploration and not claimed".into(),
        ],
    }
}
