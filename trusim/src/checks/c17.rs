//! C17 — extracting images and compiling them back reproduces the embedded textures.
//!
//! A store/load round trip through a directory tree on a real (fault-injected) file system:
//! `extract` creates directories and PNG files, `compile -i dir` stats and decodes them.
//!
//! Workload: (a) corpus ANMs with embedded images; (b) generated ANMs: a seed-drawn RGBA PNG is
//! compiled into a one-entry ANM in every colour format, dimensions 1..64, offsets 0..8; then
//! decompile -> spec, extract -> PNG tree, compile spec -i tree must equal the original, and the
//! control `compile spec -i original.anm` must equal the original too ("ANM sources copy verbatim").
//! (c) orderings of up to three image sources (two directories with different images, one ANM, one
//! directory that supplies nothing) against a reference model: the output equals the output obtained
//! with only the last source that supplies the path.  (d) faults: every write/mkdir/create event of
//! `extract`, disk-full budgets inside the PNGs, every open/read event of the compile-from-directory.

use crate::case::{Case, Input, Step};
use crate::engine::*;
use crate::oracle::*;
use crate::report::CheckResult;
use crate::rng::{self, Rng};
use serde_json::json;
use std::collections::BTreeMap;

fn s(x: &str) -> String {
    x.to_string()
}

// ------------------------------------------------------------------------------- tiny PNG encoder

fn crc32(data: &[u8]) -> u32 {
    let mut c: u32 = 0xFFFF_FFFF;
    for &b in data {
        c ^= b as u32;
        for _ in 0..8 {
            c = if c & 1 != 0 { 0xEDB8_8320 ^ (c >> 1) } else { c >> 1 };
        }
    }
    !c
}

fn adler32(data: &[u8]) -> u32 {
    let (mut a, mut b) = (1u32, 0u32);
    for &x in data {
        a = (a + x as u32) % 65521;
        b = (b + a) % 65521;
    }
    (b << 16) | a
}

fn chunk(out: &mut Vec<u8>, kind: &[u8; 4], data: &[u8]) {
    out.extend_from_slice(&(data.len() as u32).to_be_bytes());
    let mut body = kind.to_vec();
    body.extend_from_slice(data);
    out.extend_from_slice(&body);
    out.extend_from_slice(&crc32(&body).to_be_bytes());
}

/// RGBA8 PNG with stored (uncompressed) deflate blocks.
pub fn encode_png(w: u32, h: u32, rgba: &[u8]) -> Vec<u8> {
    assert_eq!(rgba.len(), (w * h * 4) as usize);
    let mut out = vec![0x89, b'P', b'N', b'G', 0x0D, 0x0A, 0x1A, 0x0A];
    let mut ihdr = vec![];
    ihdr.extend_from_slice(&w.to_be_bytes());
    ihdr.extend_from_slice(&h.to_be_bytes());
    ihdr.extend_from_slice(&[8, 6, 0, 0, 0]);
    chunk(&mut out, b"IHDR", &ihdr);
    let mut raw = vec![];
    for y in 0..h as usize {
        raw.push(0);
        raw.extend_from_slice(&rgba[y * w as usize * 4..(y + 1) * w as usize * 4]);
    }
    let mut z = vec![0x78, 0x01];
    let mut blocks = raw.chunks(65535).peekable();
    if raw.is_empty() {
        z.extend_from_slice(&[1, 0, 0, 0xFF, 0xFF]);
    }
    while let Some(b) = blocks.next() {
        z.push(if blocks.peek().is_none() { 1 } else { 0 });
        z.extend_from_slice(&(b.len() as u16).to_le_bytes());
        z.extend_from_slice(&(!(b.len() as u16)).to_le_bytes());
        z.extend_from_slice(b);
    }
    z.extend_from_slice(&adler32(&raw).to_be_bytes());
    chunk(&mut out, b"IDAT", &z);
    chunk(&mut out, b"IEND", &[]);
    out
}

/// Seed-drawn pixels: a mix of uniformly random values and quantisation-boundary values.
pub fn gen_pixels(w: u32, h: u32, rng: &mut Rng) -> Vec<u8> {
    let specials = [0u8, 1, 3, 4, 7, 8, 15, 16, 17, 127, 128, 135, 136, 239, 240, 247, 248, 251, 252, 254, 255];
    let mut v = Vec::with_capacity((w * h * 4) as usize);
    let mode = rng.below(4);
    for _ in 0..(w * h) {
        for c in 0..4 {
            let b = match mode {
                0 => rng.below(256) as u8,
                1 => *rng.pick(&specials),
                2 => {
                    if c == 3 {
                        255
                    } else {
                        rng.below(256) as u8
                    }
                }
                _ => {
                    if rng.chance(1, 2) {
                        *rng.pick(&specials)
                    } else {
                        rng.below(256) as u8
                    }
                }
            };
            v.push(b);
        }
    }
    v
}

const PATH: &str = "subdir/file.png";

fn gen_spec(format: u32, offx: u32, offy: u32, entries: usize) -> String {
    let mut t = String::from("#pragma mapfile \"map/any.anmm\"\n\n");
    for k in 0..entries {
        t.push_str(&format!(
            "entry {{\n    path: \"{}\",\n    has_data: true,\n    img_format: {},\n    offset_x: {},\n    offset_y: {},\n    colorkey: 0,\n    memory_priority: 0,\n    low_res_scale: false,\n    sprites: {{sprite{}: {{id: {}, x: 0.0, y: 0.0, w: 1.0, h: 1.0}}}},\n}}\n\nscript script{} {{\n    ins_1();\n}}\n\n",
            PATH, format, offx, offy, k, k, k
        ));
    }
    t
}

// ------------------------------------------------------------------------------- oracles

/// steps: [.., decompile(orig)->spec, extract(orig)->dir, compile spec -i dir -> from_dir.anm,
///         compile spec -i orig -> from_anm.anm]; meta: {"orig": path or null (then produced by step 0 as orig.anm), "first": index of the decompile step}
pub fn oracle_extract_roundtrip(w: &mut Worker, case: &Case) -> Vec<Violation> {
    let outs = w.golden(case);
    let mut v = vec![];
    let first = case.meta.get("first").and_then(|x| x.as_u64()).unwrap_or(0) as usize;
    let item = case.meta.get("item").and_then(|x| x.as_str()).unwrap_or("?").to_string();
    if outs.len() <= first || outs[..first].iter().any(|o| !o.ok()) {
        w.stats.probe("extract-rt:setup-compile-failed(skip)");
        return v;
    }
    let original: Vec<u8> = if first > 0 {
        match outs[first - 1].files.get("orig.anm") {
            Some(b) => b.clone(),
            None => return v,
        }
    } else {
        let p = case.meta.get("orig").and_then(|x| x.as_str()).unwrap_or("");
        match crate::case::materialise(&case.inputs, &w.ctx.corpus).into_iter().find(|(q, _)| q == p) {
            Some((_, d)) => d.as_ref().clone(),
            None => return v,
        }
    };
    let dec = match outs.get(first) {
        Some(o) if o.ok() && !has_warning(&diagnostics(&o.stderr)) => o,
        _ => {
            w.stats.probe("extract-rt:decompile-failed-or-warned(exempt)");
            return v;
        }
    };
    let _ = dec;
    if case.meta.get("control_only").and_then(|x| x.as_bool()).unwrap_or(false) {
        w.stats.nontrivial.insert(rng::hash_bytes(case.name.as_bytes()));
        match outs.get(first + 1) {
            Some(o) if o.ok() => match o.files.get("from_anm.anm") {
                Some(b) if *b == original => w.stats.probe("extract-rt:dup-path-control-identical"),
                _ => v.push(Violation { class: format!("extract-rt:from-anm-differs:{}", item), detail: case.name.clone() }),
            },
            Some(o) => v.push(Violation { class: format!("extract-rt:compile-from-anm-failed:{}", item), detail: format!("{}: {}", case.name, short(&o.stderr, 400)) }),
            None => {}
        }
        return v;
    }
    let ext = match outs.get(first + 1) {
        Some(o) => o,
        None => return v,
    };
    if !ext.ok() {
        // extract may fail loudly (e.g. unknown colour format): allowed
        w.stats.probe("extract-rt:extract-failed-loudly(exempt)");
        return v;
    }
    if has_warning(&diagnostics(&ext.stderr)) {
        w.stats.probe("extract-rt:extract-warned(exempt)");
        return v;
    }
    w.stats.nontrivial.insert(rng::hash_bytes(case.name.as_bytes()));
    let from_dir = outs.get(first + 2);
    match from_dir {
        Some(o) if o.ok() => match o.files.get("from_dir.anm") {
            Some(b) if *b == original => w.stats.probe("extract-rt:from-dir-identical"),
            Some(b) => {
                let pos = b.iter().zip(original.iter()).position(|(x, y)| x != y).unwrap_or(b.len().min(original.len()));
                v.push(Violation { class: format!("extract-rt:from-dir-differs:{}", item), detail: format!("{} vs {} bytes, first difference at {}; {}", original.len(), b.len(), pos, case.name) });
            }
            None => v.push(Violation { class: format!("extract-rt:no-output:{}", item), detail: case.name.clone() }),
        },
        Some(o) => v.push(Violation { class: format!("extract-rt:compile-from-dir-failed:{}", item), detail: format!("{}: {}", case.name, short(&o.stderr, 400)) }),
        None => {}
    }
    // control: ANM source copies textures verbatim.  (the pipeline stops at the first failing step,
    // so the control only exists if the from-dir compile succeeded)
    if let Some(o) = outs.get(first + 3) {
        if o.ok() {
            match o.files.get("from_anm.anm") {
                Some(b) if *b == original => w.stats.probe("extract-rt:from-anm-identical"),
                Some(_) => v.push(Violation { class: format!("extract-rt:from-anm-differs:{}", item), detail: case.name.clone() }),
                None => {}
            }
        } else {
            v.push(Violation { class: format!("extract-rt:compile-from-anm-failed:{}", item), detail: format!("{}: {}", case.name, short(&o.stderr, 400)) });
        }
    }
    v
}

/// steps: [setup.., compile spec <sources in order> -> multi.anm, compile spec <model source> -> model.anm]
/// meta: {"first": index of the multi compile}
pub fn oracle_multisource(w: &mut Worker, case: &Case) -> Vec<Violation> {
    let outs = w.golden(case);
    let mut v = vec![];
    let first = case.meta.get("first").and_then(|x| x.as_u64()).unwrap_or(0) as usize;
    if outs.len() <= first || outs[..first].iter().any(|o| !o.ok()) {
        w.stats.probe("multisource:setup-failed(skip)");
        return v;
    }
    let expect_fail = case.meta.get("expect_fail").and_then(|x| x.as_bool()).unwrap_or(false);
    let multi = &outs[first];
    if expect_fail {
        w.stats.nontrivial.insert(rng::hash_bytes(case.name.as_bytes()));
        if multi.ok() {
            v.push(Violation { class: "model:no-supplier-but-success".into(), detail: case.name.clone() });
        }
        return v;
    }
    if case.name.contains("broken-winner") && case.steps.len() > first + 1 {
        // the pipeline stops at the first failing step, so run the model (single-source) compile alone
        w.stats.nontrivial.insert(rng::hash_bytes(case.name.as_bytes()));
        let model = w.run_step_after_golden(case, &outs, first + 1);
        if !model.ok() && multi.ok() {
            v.push(Violation { class: "model:broken-winner-skipped".into(), detail: format!("{}: compiling with only the last supplying source fails ({}), but with all sources it exits 0", case.name, short(&model.stderr, 160)) });
        } else {
            w.stats.probe("multisource:broken-winner-fails-or-is-readable");
        }
        return v;
    }
    if !multi.ok() {
        v.push(Violation { class: "model:multi-source-compile-failed".into(), detail: format!("{}: {}", case.name, short(&multi.stderr, 300)) });
        return v;
    }
    let model = match outs.get(first + 1) {
        Some(o) if o.ok() => o,
        _ => {
            w.stats.probe("multisource:model-compile-failed(skip)");
            return v;
        }
    };
    w.stats.nontrivial.insert(rng::hash_bytes(case.name.as_bytes()));
    if multi.files.get("multi.anm") != model.files.get("model.anm") {
        v.push(Violation { class: "model:last-wins".into(), detail: format!("{}: output with all sources differs from output with only the last supplying source", case.name) });
    } else {
        w.stats.probe("multisource:agrees-with-model");
    }
    v
}

// ------------------------------------------------------------------------------- scenarios

fn roundtrip_steps(orig: &str, game: &str) -> Vec<Step> {
    vec![
        Step::new(vec![s("truanm"), s("decompile"), s("-g"), s(game), s(orig), s("-m"), s("map/any.anmm"), s("-o"), s("spec.txt")]),
        Step::new(vec![s("truanm"), s("extract"), s("-g"), s(game), s(orig), s("-o"), s("ext")]),
        Step::new(vec![s("truanm"), s("compile"), s("-g"), s(game), s("spec.txt"), s("-i"), s("ext"), s("-o"), s("from_dir.anm")]),
        Step::new(vec![s("truanm"), s("compile"), s("-g"), s(game), s("spec.txt"), s("-i"), s(orig), s("-o"), s("from_anm.anm")]),
    ]
}

pub fn generated_case(seed: u64, idx: u64) -> Case {
    let mut rng = Rng::new(rng::mix(seed, "c17-gen", idx));
    let format = *rng.pick(&[1u32, 3, 5, 7]);
    let (w, h) = if rng.chance(1, 4) { (rng.range(1, 4) as u32, rng.range(1, 4) as u32) } else { (rng.range(1, 64) as u32, rng.range(1, 64) as u32) };
    let (ox, oy) = if rng.chance(1, 2) { (0, 0) } else { (rng.below(9) as u32, rng.below(9) as u32) };
    let entries = if rng.chance(1, 5) { 2 } else { 1 };
    let game = *rng.pick(&["th12", "th10", "th16", "th08"]);
    let png = encode_png(w + ox, h + oy, &gen_pixels(w + ox, h + oy, &mut rng));
    let mut steps = vec![Step::new(vec![s("truanm"), s("compile"), s("-g"), s(game), s("gen.spec"), s("-i"), s("gen"), s("-o"), s("orig.anm")])];
    steps.extend(roundtrip_steps("orig.anm", game));
    let mut inputs = vec![Input::tree("map/"), Input::text("gen.spec", &gen_spec(format, ox, oy, entries)), Input::bytes(&format!("gen/{}", PATH), png)];
    // initial-state variation: the extraction directory may already hold a stale image at the same
    // path (must be replaced), or unrelated files
    let stale = rng.below(5);
    if stale == 0 {
        inputs.push(Input::bytes(&format!("ext/{}", PATH), encode_png(w + ox + 1, h + oy, &gen_pixels(w + ox + 1, h + oy, &mut rng))));
    } else if stale == 1 {
        inputs.push(Input::text("ext/unrelated.txt", "stale"));
    }
    Case {
        property: "C17".into(),
        oracle: "extract-roundtrip".into(),
        name: format!("generated#{} {} fmt={} {}x{}+{}+{} entries={} stale={}", idx, game, format, w, h, ox, oy, entries, stale),
        inputs,
        steps,
        meta: json!({"first": 1, "item": "generated"}),
    }
}

/// Several entries sharing ONE path but with different regions of the same PNG (different offsets and
/// sizes), hence distinct textures: decompile -> spec, compile spec -i original.anm must reproduce the
/// original, which requires matching same-path entries to source entries in order of appearance.
/// (extract writes all of them to the same file, so the from-directory comparison is skipped.)
pub fn dup_path_case(seed: u64, idx: u64) -> Case {
    let mut rng = Rng::new(rng::mix(seed, "c17-dup", idx));
    let (pw, ph) = (rng.range(4, 24) as u32, rng.range(4, 24) as u32);
    let png = encode_png(pw, ph, &gen_pixels(pw, ph, &mut rng));
    let n = rng.range(3, 5) as usize;
    let game = *rng.pick(&["th12", "th10", "th16"]);
    let mut t = String::from("#pragma mapfile \"map/any.anmm\"\n\n");
    for k in 0..n {
        let ox = rng.below(pw as u64) as u32;
        let oy = rng.below(ph as u64) as u32;
        let format = *rng.pick(&[1u32, 3, 5, 7]);
        t.push_str(&format!(
            "entry {{\n    path: \"{}\",\n    has_data: true,\n    img_format: {},\n    img_width: {},\n    img_height: {},\n    offset_x: {},\n    offset_y: {},\n    colorkey: 0,\n    memory_priority: 0,\n    low_res_scale: false,\n    sprites: {{sprite{}: {{id: {}, x: 0.0, y: 0.0, w: 1.0, h: 1.0}}}},\n}}\n\nscript script{} {{\n    ins_1();\n}}\n\n",
            PATH, format, pw - ox, ph - oy, ox, oy, k, k, k
        ));
    }
    let mut steps = vec![Step::new(vec![s("truanm"), s("compile"), s("-g"), s(game), s("gen.spec"), s("-i"), s("gen"), s("-o"), s("orig.anm")])];
    steps.extend(roundtrip_steps("orig.anm", game));
    // drop the extract and compile-from-dir steps: keep decompile + control
    steps.remove(2);
    steps.remove(2);
    Case {
        property: "C17".into(),
        oracle: "extract-roundtrip".into(),
        name: format!("dup-path#{} {} entries={} png={}x{}", idx, game, n, pw, ph),
        inputs: vec![Input::tree("map/"), Input::text("gen.spec", &t), Input::bytes(&format!("gen/{}", PATH), png)],
        steps,
        meta: json!({"first": 1, "item": "dup-path", "control_only": true}),
    }
}

/// Entries whose paths are different strings for the same file (`a/t.png`, `a//t.png`, `a/./t.png`) and
/// crop different regions of it, so they carry different textures.  An ANM source supplies each entry
/// with the texture stored under *its* path string, whatever order the script lists them in: compiling
/// the reordered script with the ANM as source must equal compiling it with the directory as source.
pub fn path_spelling_case(seed: u64, idx: u64) -> Case {
    let mut rng = Rng::new(rng::mix(seed, "c17-spell", idx));
    let (pw, ph) = (rng.range(6, 24) as u32, rng.range(6, 24) as u32);
    let png = encode_png(pw, ph, &gen_pixels(pw, ph, &mut rng));
    let game = *rng.pick(&["th12", "th10", "th16"]);
    let spellings = ["sub/tex.png", "sub//tex.png", "sub/./tex.png", "./sub/tex.png"];
    let n = rng.range(2, 4) as usize;
    let mut entries: Vec<String> = vec![];
    for k in 0..n {
        let ox = rng.below(pw as u64 - 1) as u32;
        let oy = rng.below(ph as u64 - 1) as u32;
        let format = *rng.pick(&[1u32, 3, 5, 7]);
        entries.push(format!(
            "entry {{\n    path: \"{}\",\n    has_data: true,\n    img_format: {},\n    img_width: {},\n    img_height: {},\n    offset_x: {},\n    offset_y: {},\n    colorkey: 0,\n    memory_priority: 0,\n    low_res_scale: false,\n    sprites: {{sprite{}: {{id: {}, x: 0.0, y: 0.0, w: 1.0, h: 1.0}}}},\n}}\n\nscript script{} {{\n    ins_1();\n}}\n\n",
            spellings[k], format, pw - ox, ph - oy, ox, oy, k, k, k
        ));
    }
    let head = "#pragma mapfile \"map/any.anmm\"\n\n";
    let forward = format!("{}{}", head, entries.concat());
    let mut order: Vec<usize> = (0..n).collect();
    rng.shuffle(&mut order);
    if order.iter().enumerate().all(|(i, &o)| i == o) {
        order.reverse();
    }
    let keep = if rng.chance(1, 3) { n - 1 } else { n };
    let reordered = format!("{}{}", head, order.iter().rev().take(keep).map(|&k| entries[k].clone()).collect::<String>());
    Case {
        property: "C17".into(),
        oracle: "multisource".into(),
        name: format!("path-spellings#{} {} entries={} order={:?} keep={} png={}x{}", idx, game, n, order, keep, pw, ph),
        inputs: vec![Input::tree("map/"), Input::text("gen.spec", &forward), Input::text("reordered.spec", &reordered), Input::bytes("gen/sub/tex.png", png)],
        steps: vec![
            Step::new(vec![s("truanm"), s("compile"), s("-g"), s(game), s("gen.spec"), s("-i"), s("gen"), s("-o"), s("orig.anm")]),
            Step::new(vec![s("truanm"), s("compile"), s("-g"), s(game), s("reordered.spec"), s("-i"), s("orig.anm"), s("-o"), s("multi.anm")]),
            Step::new(vec![s("truanm"), s("compile"), s("-g"), s(game), s("reordered.spec"), s("-i"), s("gen"), s("-o"), s("model.anm")]),
        ],
        meta: json!({"first": 1}),
    }
}

pub fn big_texture_case(seed: u64) -> Case {
    let mut rng = Rng::new(rng::mix(seed, "c17-big", 0));
    let png = encode_png(64, 64, &gen_pixels(64, 64, &mut rng));
    let mut steps = vec![Step::new(vec![s("truanm"), s("compile"), s("-g"), s("th12"), s("gen.spec"), s("-i"), s("gen"), s("-o"), s("orig.anm")])];
    steps.extend(roundtrip_steps("orig.anm", "th12"));
    Case {
        property: "C17".into(),
        oracle: "extract-roundtrip".into(),
        name: "generated-big th12 fmt=1 64x64+0+0 entries=2".into(),
        inputs: vec![Input::tree("map/"), Input::text("gen.spec", &gen_spec(1, 0, 0, 2)), Input::bytes(&format!("gen/{}", PATH), png)],
        steps,
        meta: json!({"first": 1, "item": "generated"}),
    }
}

pub fn multisource_cases(seed: u64, n: u64) -> Vec<Case> {
    let mut out = vec![];
    for idx in 0..n {
        let mut rng = Rng::new(rng::mix(seed, "c17-multi", idx));
        let format = *rng.pick(&[1u32, 3, 5, 7]);
        let (w, h) = (rng.range(1, 24) as u32, rng.range(1, 24) as u32);
        let game = "th12";
        let mut inputs = vec![Input::tree("map/"), Input::text("gen.spec", &gen_spec(format, 0, 0, if rng.chance(1, 4) { 2 } else { 1 })), Input::text("dirE/.keep", ""), Input::bytes("dirO/other.png", encode_png(2, 2, &gen_pixels(2, 2, &mut rng)))];
        for d in ["dirA", "dirB", "dirC"] {
            inputs.push(Input::bytes(&format!("{}/{}", d, PATH), encode_png(w, h, &gen_pixels(w, h, &mut rng))));
        }
        // dirL: the image file is a symbolic link to dirB's image; dirM: a symlinked directory (-> dirA)
        inputs.push(Input::symlink(&format!("dirL/{}", PATH), &format!("../../dirB/{}", PATH)));
        inputs.push(Input::symlink("dirM", "dirA"));
        // setup: srcC.anm embeds image C
        let setup = Step::new(vec![s("truanm"), s("compile"), s("-g"), s(game), s("gen.spec"), s("-i"), s("dirC"), s("-o"), s("srcC.anm")]);
        // draw an ordering of 1..3 sources out of {dirA, dirB, srcC.anm, dirE (empty), dirO (other path)}
        let pool = ["dirA", "dirB", "srcC.anm", "dirE", "dirO", "dirL", "dirM"];
        let k = rng.range(1, 3) as usize;
        let mut order: Vec<&str> = vec![];
        if rng.chance(1, 4) {
            // one source named twice with another supplier in between, the second mention possibly
            // under another spelling (./x, x/, through the directory link): the LAST mention counts
            let (x, aliases): (&str, &[&str]) = *rng.pick(&[("dirA", &["dirA", "./dirA", "dirA/", "dirM", "dirE/../dirA"][..]), ("dirB", &["dirB", "./dirB", "dirB/"][..]), ("srcC.anm", &["srcC.anm", "./srcC.anm"][..])]);
            let mid = *rng.pick(&["dirA", "dirB", "srcC.anm"]);
            order = vec![x, mid, *rng.pick(aliases)];
        }
        while order.len() < k {
            let c = *rng.pick(&pool);
            if !order.contains(&c) || rng.chance(1, 6) {
                order.push(c);
            }
        }
        // a link supplies what its target supplies: the model source for dirL is dirB, for dirM dirA;
        // other spellings of a path name the same source
        let canon = |x: &str| -> &'static str {
            match x.trim_start_matches("./").trim_end_matches('/') {
                "dirA" | "dirM" | "dirE/../dirA" => "dirA",
                "dirB" | "dirL" => "dirB",
                "srcC.anm" => "srcC.anm",
                "dirE" => "dirE",
                _ => "dirO",
            }
        };
        let supplier = order.iter().rev().map(|x| canon(x)).find(|x| ["dirA", "dirB", "srcC.anm"].contains(x));
        // the first n_pragma sources of the ordering are given as `#pragma image_source` lines in a copy
        // of the script (sources named in the file precede the ones on the command line), the rest by -i
        let n_pragma = if rng.chance(1, 3) { rng.below(order.len() as u64 + 1) as usize } else { 0 };
        let spec_name = if n_pragma > 0 { "multi.spec" } else { "gen.spec" };
        if n_pragma > 0 {
            let body = match &inputs[1].base {
                crate::case::Base::Text(t) => t.clone(),
                _ => String::new(),
            };
            let pragmas: String = order[..n_pragma].iter().map(|o| format!("#pragma image_source \"{}\"\n", o)).collect();
            inputs.push(Input::text("multi.spec", &format!("{}{}", pragmas, body)));
        }
        let mut multi = vec![s("truanm"), s("compile"), s("-g"), s(game), s(spec_name)];
        for o in &order[n_pragma..] {
            multi.push(s("-i"));
            multi.push(s(o));
        }
        multi.extend([s("-o"), s("multi.anm")]);
        let mut steps = vec![setup, Step::new(multi)];
        let mut meta = json!({"first": 1});
        match supplier {
            Some(sup) => steps.push(Step::new(vec![s("truanm"), s("compile"), s("-g"), s(game), s("gen.spec"), s("-i"), s(sup), s("-o"), s("model.anm")])),
            None => meta["expect_fail"] = json!(true),
        }
        // initial-state variation: the image file of the winning directory is empty or cut short (as an
        // interrupted extraction leaves it).  The last supplier still "wins": the compile must fail as
        // it does with that source alone, not quietly fall back to an earlier source.
        let mut name = format!("multisource#{} fmt={} {}x{} order={:?} pragmas={}", idx, format, w, h, order, n_pragma);
        if let Some(sup) = supplier {
            if sup != "srcC.anm" && rng.chance(1, 5) {
                let cut = if rng.chance(1, 2) { 0 } else { rng.range(1, 40) as usize };
                if let Some(inp) = inputs.iter_mut().find(|i| i.path == format!("{}/{}", sup, PATH)) {
                    inp.corrupt.push(crate::case::CorruptOp::Trunc { at: cut });
                    name.push_str(&format!(" broken-winner(trunc@{})", cut));
                }
            }
        }
        out.push(Case { property: "C17".into(), oracle: "multisource".into(), name, inputs, steps, meta });
    }
    out
}

pub fn run(ctx: &Ctx) -> CheckResult {
    let quick = ctx.tier == Tier::Quick;
    let mut cases: Vec<Case> = vec![];
    // (a) corpus ANMs (resources have embedded images; b2b ones mostly have none: control only)
    for item in ctx.corpus.binaries().filter(|b| b.cmd == "truanm") {
        let path = item.path.clone().unwrap();
        cases.push(Case {
            property: "C17".into(),
            oracle: "extract-roundtrip".into(),
            name: format!("corpus:{}", item.id),
            inputs: vec![Input::tree("map/"), Input::corpus(&path)],
            steps: roundtrip_steps(&path, &item.game),
            meta: json!({"first": 0, "orig": path, "item": item.id}),
        });
    }
    // (b) generated textures
    let n_gen = if quick { 220 } else { 4000 };
    for i in 0..n_gen {
        cases.push(generated_case(ctx.seed, i));
    }
    for i in 0..(if quick { 40 } else { 800 }) {
        cases.push(dup_path_case(ctx.seed, i));
    }
    // (b') the directory holds an image of the wrong size for the entry (smaller or larger in either
    // dimension, independently): the compile must fail loudly or succeed - never crash
    for i in 0..(if quick { 60 } else { 1500 }) {
        let mut rng = Rng::new(rng::mix(ctx.seed, "c17-wrongsize", i));
        let (w, h) = (rng.range(1, 20) as u32, rng.range(1, 20) as u32);
        let (ox, oy) = (rng.below(12) as u32, rng.below(12) as u32);
        let pick = |r: &mut Rng, want: u32| -> u32 {
            match r.below(4) {
                0 => want,
                1 => r.range(1, want.max(2) as u64) as u32,
                2 => want + r.range(1, 9) as u32,
                _ => r.range(1, 40) as u32,
            }
        };
        let (pw, ph) = (pick(&mut rng, w + ox), pick(&mut rng, h + oy));
        let explicit = rng.chance(1, 2);
        let mut spec = gen_spec(*rng.pick(&[1u32, 3, 5, 7]), ox, oy, 1);
        if explicit {
            spec = spec.replace("    has_data: true,\n", &format!("    has_data: true,\n    img_width: {},\n    img_height: {},\n", w, h));
        }
        cases.push(Case {
            property: "C17".into(),
            oracle: "term".into(),
            name: format!("wrong-size-image#{} entry {}x{}+{}+{} explicit={} png {}x{}", i, w, h, ox, oy, explicit, pw, ph),
            inputs: vec![Input::tree("map/"), Input::text("gen.spec", &spec), Input::bytes(&format!("gen/{}", PATH), encode_png(pw, ph, &gen_pixels(pw, ph, &mut rng)))],
            steps: vec![Step::new(vec![s("truanm"), s("compile"), s("-g"), s("th12"), s("gen.spec"), s("-i"), s("gen"), s("-o"), s("orig.anm")])],
            meta: json!({}),
        });
    }
    // (b'') explicit fields of the script beat what an ANM image source carries: compile an ANM with one
    // set of header fields, then compile a script that states other values with that ANM as image source,
    // and read the result back field for field (checks/fields.rs)
    for i in 0..(if quick { 12 } else { 200 }) {
        let mut rng = Rng::new(rng::mix(ctx.seed, "c17-explicit", i));
        let game = *rng.pick(&["th12", "th16", "th10"]);
        let (w, h) = (rng.range(1, 16) as u32, rng.range(1, 16) as u32);
        let fmt = *rng.pick(&[1u32, 3, 5, 7]);
        let src_spec = gen_spec(fmt, 0, 0, 1);
        let (mp, lrs, rw, rh) = (rng.range(1, 300), rng.chance(1, 2), *rng.pick(&[32u32, 64, 256]), *rng.pick(&[32u32, 64, 128]));
        let mut want = src_spec.replace("memory_priority: 0,", &format!("memory_priority: {},", mp)).replace("colorkey: 0,\n", "");
        if game != "th10" {
            want = want.replace("low_res_scale: false,", &format!("low_res_scale: {},", lrs));
        } else {
            want = want.replace("    low_res_scale: false,\n", "");
        }
        // every other case states the render-target size under the deprecated key names, whose meaning
        // truth's own deprecation warning gives ('width' -> 'rt_width', 'height' -> 'rt_height')
        let deprecated = i % 2 == 1;
        let (kw, kh) = if deprecated { ("width", "height") } else { ("rt_width", "rt_height") };
        want = want.replace("    has_data: true,\n", &format!("    has_data: true,\n    {}: {},\n    {}: {},\n", kw, rw, kh, rh));
        let src_spec = if game == "th10" { src_spec.replace("    low_res_scale: false,\n", "") } else { src_spec };
        cases.push(Case {
            property: "C17".into(),
            oracle: "fieldwise".into(),
            name: format!("explicit-fields#{} {} fmt={} {}x{} memory_priority={} low_res_scale={} rt={}x{}{}", i, game, fmt, w, h, mp, lrs, rw, rh, if deprecated { " [deprecated keys]" } else { "" }),
            inputs: vec![Input::tree("map/"), Input::text("src.spec", &src_spec), Input::text(crate::scen::SRC, &want), Input::text("fields.map", "!anmmap\n"), Input::bytes(&format!("gen/{}", PATH), encode_png(w, h, &gen_pixels(w, h, &mut rng)))],
            steps: vec![
                Step::new(vec![s("truanm"), s("compile"), s("-g"), s(game), s("src.spec"), s("-i"), s("gen"), s("-o"), s("orig.anm")]),
                Step::new(vec![s("truanm"), s("compile"), s("-g"), s(game), s(crate::scen::SRC), s("-i"), s("orig.anm"), s("-o"), s(crate::scen::OUT)]),
                Step::new(vec![s("truanm"), s("decompile"), s("-g"), s(game), s(crate::scen::OUT), s("-o"), s(crate::scen::DEC), s("--no-blocks"), s("--no-intrinsics")]),
            ],
            meta: json!({"compile_step": 1, "request_rename": if deprecated { json!([["    width:", "    rt_width:"], ["    height:", "    rt_height:"]]) } else { json!([]) }}),
        });
    }
    for i in 0..(if quick { 25 } else { 400 }) {
        cases.push(path_spelling_case(ctx.seed, i));
    }
    // (c) source orderings
    cases.extend(multisource_cases(ctx.seed, if quick { 150 } else { 2500 }));
    let (_r, mut stats, mut findings, mut herr) = par_map(ctx, &cases, |w, _, c| w.judge(c));

    // (d) faults: extract's write side, compile-from-dir's read side
    let mut jobs: Vec<FaultJob> = vec![];
    let fault_bases: Vec<Case> = {
        let mut v: Vec<Case> = cases.iter().filter(|c| c.name.starts_with("corpus:res/th12-embedded-image-source") || c.name.starts_with("corpus:res/th12-embedded-weird")).cloned().collect();
        let n = if quick { 3 } else { 40 };
        v.extend((0..n).map(|i| generated_case(ctx.seed ^ 0xFA17, i)));
        // one texture larger than every buffer on the way (64x64 ARGB8888 = 16 KiB): writes of this
        // size bypass BufWriter and reach the file in one call
        v.push(big_texture_case(ctx.seed));
        v
    };
    for base in fault_bases {
        let first = base.meta.get("first").and_then(|x| x.as_u64()).unwrap_or(0) as usize;
        let seed = rng::mix(ctx.seed, &base.name, 17);
        jobs.push(FaultJob { base: base.clone(), step: first + 1, space: FaultSpace { read_side: false, write_side: true, meta_side: true, budgets: if quick { Budgets::BoundariesPlus(10) } else { Budgets::BoundariesPlus(200) }, seed }, noise: true, max_variants: if quick { 150 } else { 0 } });
        // the same with extract's progress lines going to a redirected stdout that can fail too (a full
        // disk, a closed pipe): the images are the product, the lines are not -- extract must neither
        // crash nor claim success with images missing
        if base.name.starts_with("corpus:res/th12-embedded-image-source") || base.name.starts_with("generated-big") {
            let mut b2 = base.clone();
            b2.steps[first + 1].stdout_to = Some("progress.txt".into());
            b2.meta["ignore_outputs"] = json!(["progress.txt"]);
            b2.name = format!("{} [extract > progress.txt]", b2.name);
            jobs.push(FaultJob { base: b2, step: first + 1, space: FaultSpace { read_side: false, write_side: true, meta_side: false, budgets: Budgets::Boundaries, seed }, noise: false, max_variants: if quick { 120 } else { 0 } });
        }
        jobs.push(FaultJob { base, step: first + 2, space: FaultSpace { read_side: true, write_side: true, meta_side: true, budgets: Budgets::Boundaries, seed }, noise: true, max_variants: if quick { 160 } else { 0 } });
    }
    for c in cases.iter().filter(|c| c.oracle == "multisource" && !c.name.contains("broken-winner") && c.name.contains("\", \"")).take(if quick { 6 } else { 120 }) {
        let seed = rng::mix(ctx.seed, &c.name, 18);
        jobs.push(FaultJob { base: c.clone(), step: 1, space: FaultSpace { read_side: true, write_side: false, meta_side: true, budgets: Budgets::Boundaries, seed }, noise: true, max_variants: if quick { 60 } else { 0 } });
    }
    let camp = run_fault_campaign(ctx, &jobs);
    stats.merge(camp.stats);
    findings.extend(camp.findings);
    herr.extend(camp.harness_errors);

    let mut extra = BTreeMap::new();
    extra.insert("roundtrip_and_model_cases".into(), json!(cases.len()));
    extra.insert("generated_textures".into(), json!(n_gen));
    extra.insert("fault_jobs".into(), json!(jobs.len()));
    extra.insert("fault_variants".into(), json!(camp.variants));
    let mut samples = camp.samples;
    for c in cases.iter().step_by((cases.len() / 3).max(1)).take(3) {
        samples.push(json!({"case": c.name, "steps": c.steps.iter().map(|s| s.argv.join(" ")).collect::<Vec<_>>()}));
    }
    CheckResult {
        property: "C17".into(),
        level: "exploration",
        stats,
        findings,
        harness_errors: herr,
        rule: "seeded generation: RGBA PNG (random + quantisation-boundary pixels) compiled into a 1-2 entry ANM with img_format in {1,3,5,7}, dimensions 1..64, offsets 0..8, game in {th08,th10,th12,th16}; then decompile/extract/compile-from-dir/compile-from-anm and whole-file identity; source orderings of 1..3 out of {dirA, dirB, srcC.anm, empty dir, dir with another path} against the last-supplier model; plus the corpus ANMs; plus single I/O faults on extract (write side) and on compile-from-dir (read side). non-trivial = the identity/model was actually demanded (no exemption applied) or a fault fired; distinct = case fingerprint".into(),
        samples,
        extra,
        exhaustive: false,
        assumptions: vec!["pixels are sampled by seed; the exhaustive sweep over all 16-bit / 8-bit pixel values is a pure function of a pixel and is not claimed".into(), "the PNGs fed to the first compile come from the harness's own stored-deflate encoder".into()],
    }
}
