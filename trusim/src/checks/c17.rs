use crate::case::Case;
use crate::engine::Worker;
use crate::oracle::Violation;

pub fn oracle_extract_roundtrip(_w: &mut Worker, _case: &Case) -> Vec<Violation> {
    vec![]
}
pub fn oracle_multisource(_w: &mut Worker, _case: &Case) -> Vec<Violation> {
    vec![]
}
