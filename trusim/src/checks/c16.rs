//! C16 — any binary input ends in success or a diagnostic, never a crash.
//!
//! The property's own quantifier is a storage-fault model.  Every bundled binary and every distinct
//! compiler output of the corpus is corrupted in storage (truncation at every offset, byte / word /
//! dword faults, zeroed / duplicated / lost blocks, torn mixes of two files; seeded double faults)
//! and faulted at read time (EIO / EINTR / short reads at every read event), then fed to decompile
//! (five option sets), and for ANM also to `extract` and to `compile -i <file>` (image source).
//! Monitors: panic, abort, signal, CPU budget (hang), address-space budget (memory exhaustion),
//! exit/diagnostic consistency, file named in the error.

use crate::case::{Base, Case, Input, Step};
use crate::corrupt::{self, Corruption};
use crate::engine::*;
use crate::report::CheckResult;
use crate::rng::{self, Rng};
use crate::scen;
use serde_json::json;
use std::collections::{BTreeMap, HashSet};
use std::sync::Arc;

fn s(x: &str) -> String {
    x.to_string()
}

#[derive(Clone)]
pub struct Target {
    pub name: String,
    pub cmd: String,
    pub game: String,
    pub mode: Vec<String>,
    pub inputs: Vec<Input>,
    pub mapargs: Vec<String>,
    pub path: String,
    pub base: Base,
    pub bytes: Arc<Vec<u8>>,
    pub peers: Vec<String>,
    pub bundled: bool,
    /// decompiled text of the pristine file (spec for the image-source scenario)
    pub spec: Option<String>,
}

const OPTION_SETS: [&[&str]; 5] = [&[], &["--no-blocks"], &["--no-intrinsics", "--no-arguments"], &["--no-diff-switches", "--no-calls"], &["--show-instr-offsets"]];

pub fn n_commands(t: &Target) -> usize {
    if t.cmd == "truanm" {
        9
    } else {
        5
    }
}

/// The k-th command applied to (a possibly corrupted copy of) the target.
pub fn target_case(t: &Target, k: usize, corruption: &[crate::case::CorruptOp], plan: &str) -> Case {
    let mut inputs = t.inputs.clone();
    inputs.push(Input { path: t.path.clone(), base: t.base.clone(), corrupt: corruption.to_vec() });
    let k = k % n_commands(t);
    let mut step = if k < 5 {
        let mut argv = vec![t.cmd.clone(), s("decompile"), s("-g"), t.game.clone(), t.path.clone()];
        argv.extend(t.mode.iter().cloned());
        if k != 3 {
            argv.extend(t.mapargs.iter().cloned());
        }
        let mut optional = vec![];
        for f in OPTION_SETS[k] {
            optional.push(argv.len());
            argv.push(s(f));
        }
        let mut st = Step::new(argv);
        st.optional = optional;
        st
    } else if k == 5 {
        Step::new(vec![s("truanm"), s("extract"), s("-g"), t.game.clone(), t.path.clone(), s("-o"), s("extracted")])
    } else {
        // 6: the file as image source of its own (pristine) decompiled script; 7, 8: the same script
        // asking for another colour format, so that the source's textures are transcoded
        let mut spec = t.spec.clone().unwrap_or_default();
        if k > 6 {
            let want = if k == 7 { "1" } else { "5" };
            let mut out = String::new();
            for line in spec.lines() {
                if line.trim_start().starts_with("img_format:") {
                    continue;
                }
                out.push_str(line);
                out.push('\n');
                // (every entry has a path; entries without data ignore the format)
                if line.trim_start().starts_with("path:") {
                    out.push_str(&format!("    img_format: {},\n", want));
                }
            }
            spec = out;
        }
        inputs.push(Input::text("spec.txt", &spec));
        Step::new(vec![s("truanm"), s("compile"), s("-g"), t.game.clone(), s("spec.txt"), s("-o"), s(scen::OUT), s("-i"), t.path.clone()])
    };
    step.plan = plan.to_string();
    Case { property: "C16".into(), oracle: "term".into(), name: format!("{} cmd#{}", t.name, k), inputs, steps: vec![step], meta: if k < 5 { json!({"names": [t.path.rsplit('/').next().unwrap_or(&t.path)]}) } else { json!({}) } }
}

/// Bundled binaries + distinct compiler outputs of the corpus (compiled now, from the current tree).
pub fn collect_targets(ctx: &Ctx, stats: &mut Stats) -> Vec<Target> {
    let mut targets: Vec<Target> = vec![];
    for item in ctx.corpus.binaries() {
        let path = item.path.clone().unwrap();
        let peers: Vec<String> = ctx.corpus.binaries().filter(|o| o.cmd == item.cmd && o.id != item.id).map(|o| o.path.clone().unwrap()).take(3).collect();
        targets.push(Target {
            name: item.id.clone(),
            cmd: item.cmd.clone(),
            game: item.game.clone(),
            mode: scen::msg_mode_flags(item),
            inputs: vec![Input::tree("map/")],
            mapargs: item.mapfile.iter().flat_map(|m| vec![s("-m"), m.clone()]).collect(),
            path: path.clone(),
            base: Base::Corpus(path.clone()),
            bytes: ctx.corpus.tree.get(&path).cloned().unwrap(),
            peers,
            bundled: true,
            spec: None,
        });
    }
    // compiler outputs
    let sources: Vec<_> = scen::source_items(&ctx.corpus).into_iter().cloned().collect();
    let (outs, st, _f, _h) = par_map(ctx, &sources, |w, _, item| {
        let c = scen::compile_case(item, false);
        let g = w.golden(&c);
        g.get(0).filter(|o| o.ok()).and_then(|o| o.files.get(scen::OUT).cloned())
    });
    stats.merge(st);
    let mut seen: HashSet<u64> = HashSet::new();
    for (item, out) in sources.iter().zip(outs.into_iter()) {
        let bytes = match out {
            Some(b) => b,
            None => continue,
        };
        if !seen.insert(rng::hash_bytes(&bytes)) {
            continue;
        }
        let mut inputs = scen::base_inputs(item);
        let mut mapargs = vec![];
        for (i, t) in item.mapfiles.iter().chain(item.compile_mapfiles.iter()).enumerate() {
            let name = format!("mapfile-{}", i + 1);
            inputs.push(Input::text(&name, t));
            mapargs.push(s("-m"));
            mapargs.push(name);
        }
        let peers: Vec<String> = ctx.corpus.binaries().filter(|o| o.cmd == item.cmd).map(|o| o.path.clone().unwrap()).take(2).collect();
        targets.push(Target {
            name: format!("compiled:{}", item.id),
            cmd: item.cmd.clone(),
            game: item.game.clone(),
            mode: item.compile_args.iter().filter(|a| *a == "--mission" || *a == "--ending").cloned().collect(),
            inputs,
            mapargs,
            path: s("input.bin"),
            base: Base::Bytes(bytes.clone()),
            bytes: Arc::new(bytes),
            peers,
            bundled: false,
            spec: None,
        });
    }
    // pristine decompile of ANM targets -> spec for the image-source scenario
    let (specs, st, _f, _h) = par_map(ctx, &targets, |w, _, t| {
        if t.cmd != "truanm" {
            return None;
        }
        let c = target_case(t, 0, &[], "");
        let g = w.golden(&c);
        g.get(0).filter(|o| o.ok()).map(|o| String::from_utf8_lossy(&o.stdout).into_owned())
    });
    stats.merge(st);
    for (t, sp) in targets.iter_mut().zip(specs.into_iter()) {
        t.spec = sp;
    }
    targets
}

pub fn run(ctx: &Ctx) -> CheckResult {
    let quick = ctx.tier == Tier::Quick;
    let mut stats = Stats::default();
    let targets = collect_targets(ctx, &mut stats);

    // ---- every target as it is (no fault): the default decompile and one seed-rotated other command
    // (thorough: every command).  A well-formed file that makes decompile crash is a violation too,
    // and compiler outputs of generated programs have shapes the bundled files lack.
    let mut pristine: Vec<Case> = vec![];
    for t in targets.iter() {
        let n = n_commands(t);
        let ks: Vec<usize> = if quick { vec![0, 1 + (rng::mix(ctx.seed, &t.name, 21) as usize) % (n - 1).max(1)] } else { (0..n).collect() };
        for k in ks {
            if k < n {
                let mut c = target_case(t, k, &[], "");
                c.name = format!("{} [pristine]", c.name);
                pristine.push(c);
            }
        }
    }
    let (_r, st_p, f_p, h_p) = par_map(ctx, &pristine, |w, _, c| w.judge(c));
    stats.merge(st_p);

    // ---- storage corruptions
    let mut work: Vec<(usize, Vec<(usize, Corruption)>)> = vec![];
    let mut n_space = 0usize;
    let mut n_selected = 0usize;
    let mut kinds: BTreeMap<&'static str, u64> = BTreeMap::new();
    // quick: bundled files get a 1/8 (header) .. 1/48 (body) slice, one compiled output per format class a thinner one
    let mut class_seen: HashSet<String> = HashSet::new();
    for (ti, t) in targets.iter().enumerate() {
        let all = corrupt::binary_faults(&t.bytes, &t.peers);
        n_space += all.len();
        let seed = rng::mix(ctx.seed, &t.name, 16);
        let cls = format!("{}:{}:{:?}", t.cmd, t.game, t.mode);
        let first_of_class = class_seen.insert(cls);
        let big = t.bytes.len() > 4096;
        let structural = corrupt::structural_offsets(&t.bytes, if quick { 160 } else { 512 });
        let is_struct = |off: usize| structural.get(off).copied().unwrap_or(false);
        let mut sel = if quick {
            if t.bundled {
                corrupt::select_by(&all, &is_struct, 16, if big { 6000 } else { 64 }, seed)
            } else if first_of_class || t.name.contains("extra/") {
                corrupt::select(&all, 128, 32, 128, seed)
            } else {
                vec![]
            }
        } else if t.bundled {
            corrupt::select_by(&all, &is_struct, 1, if big { 400 } else { 1 }, seed)
        } else if first_of_class || t.name.contains("extra/") {
            corrupt::select(&all, 256, 2, if big { 100 } else { 4 }, seed)
        } else {
            corrupt::select(&all, 128, 12, 48, seed)
        };
        if !quick && (t.bundled || first_of_class) {
            let mut r = Rng::new(seed ^ 0xD0B1E);
            sel.extend(corrupt::double_faults(&all, if t.bundled { 400 } else { 100 }, &mut r));
        }
        n_selected += sel.len();
        for c in &sel {
            *kinds.entry(c.kind).or_insert(0) += 1;
        }
        // texture headers only matter to the commands that load image data (extract, compile -i):
        // every fault in a THTX header goes to those two, and quick takes a denser slice of them
        let thtx = corrupt::texture_header_offsets(&t.bytes);
        let in_thtx = |off: usize| thtx.get(off).copied().unwrap_or(false);
        if t.cmd == "truanm" && thtx.iter().any(|b| *b) {
            sel.retain(|c| !in_thtx(c.off));
            let tex: Vec<Corruption> = all.iter().filter(|c| in_thtx(c.off)).cloned().collect();
            let dense = if quick { 3 } else { 1 };
            sel.extend(corrupt::select_by(&tex, &|_| true, dense, 1, seed));
        }
        // command rotation: the j-th selected fault of a target goes to command (j + rotation)
        let rot = (seed % 7) as usize;
        let with_cmd: Vec<(usize, Corruption)> = sel.into_iter().enumerate().map(|(j, c)| if t.cmd == "truanm" && in_thtx(c.off) { (5 + (j % 4), c) } else { (j + rot, c) }).collect();
        for ch in with_cmd.chunks(48) {
            work.push((ti, ch.to_vec()));
        }
    }
    let (_r, st, mut findings, mut herr) = par_map(ctx, &work, |w, _, (ti, vs)| {
        let t = &targets[*ti];
        for (k, c) in vs {
            let case = target_case(t, *k, &c.ops, "");
            w.judge(&case);
        }
    });
    stats.merge(st);

    // ---- configuration / environment variants on one pristine bundled file per tool
    let mut cfg_cases: Vec<Case> = vec![];
    {
        let mut seen: HashSet<String> = HashSet::new();
        for t in targets.iter().filter(|t| t.bundled) {
            if !seen.insert(t.cmd.clone()) {
                continue;
            }
            let base = target_case(t, 0, &[], "");
            let mk = |name: &str, f: &dyn Fn(&mut Case)| {
                let mut c = base.clone();
                c.name = format!("{} [config:{}]", base.name, name);
                c.meta = json!({});
                f(&mut c);
                c
            };
            let path = t.path.clone();
            cfg_cases.push(mk("missing-input", &|c| c.inputs.retain(|i| i.path != path)));
            cfg_cases.push(mk("input-is-directory", &|c| {
                c.inputs.retain(|i| i.path != path);
                c.inputs.push(Input::text(&format!("{}/inner", path), "x"));
            }));
            cfg_cases.push(mk("output-dir-missing", &|c| c.steps[0].argv.extend([s("-o"), s("no/such/dir/out.txt")])));
            cfg_cases.push(mk("output-is-directory", &|c| {
                c.inputs.push(Input::text("outdir/inner", "x"));
                c.steps[0].argv.extend([s("-o"), s("outdir")]);
            }));
            for (name, val) in [("map-path-missing-dir", "nonexistent"), ("map-path-two-dirs", "nonexistent:map"), ("map-path-empty-entries", "::map:"), ("map-path-is-file", "map/any.anmm"), ("map-path-dir", "map")] {
                cfg_cases.push(mk(name, &|c| {
                    // drop the explicit -m so that the environment decides
                    if let Some(p) = c.steps[0].argv.iter().position(|a| a == "-m") {
                        c.steps[0].argv.drain(p..p + 2);
                    }
                    c.steps[0].env.push(("TRUTH_MAP_PATH".into(), val.into()));
                }));
            }
            cfg_cases.push(mk("mapfile-wrong-language", &|c| c.steps[0].argv.extend([s("-m"), s(if t.cmd == "truanm" { "map/any.stdm" } else { "map/any.anmm" })])));
            cfg_cases.push(mk("wrong-game", &|c| {
                if let Some(p) = c.steps[0].argv.iter().position(|a| a == "-g") {
                    c.steps[0].argv[p + 1] = if c.steps[0].argv[p + 1] == "th06" { s("th18") } else { s("th06") };
                }
            }));
            cfg_cases.push(mk("max-columns-zero", &|c| c.steps[0].argv.extend([s("--max-columns"), s("0")])));
            cfg_cases.push(mk("max-columns-huge", &|c| c.steps[0].argv.extend([s("--max-columns"), s("18446744073709551615")])));
            cfg_cases.push(mk("max-columns-garbage", &|c| c.steps[0].argv.extend([s("--max-columns"), s("-3")])));
            cfg_cases.push(mk("all-flags", &|c| c.steps[0].argv.extend(["--no-blocks", "--no-intrinsics", "--no-arguments", "--no-diff-switches", "--no-calls", "--show-instr-offsets"].iter().map(|x| s(x)))));
        }
    }
    // two adjacent 16-bit fields at their extremes at once (sizes, offsets: products that wrap): every
    // aligned dword of the first entry header of the ANM files with embedded images set to FFFFFFFF /
    // FFFF7FFF / 7FFFFFFF, for the image-loading commands and the default decompile
    for t in targets.iter().filter(|t| t.bundled && t.name.starts_with("res/th12-embedded")) {
        for off in (0..64usize).step_by(4) {
            for (vi, val) in [[0xFFu8, 0xFF, 0xFF, 0xFF], [0xFF, 0x7F, 0xFF, 0xFF], [0xFF, 0xFF, 0xFF, 0x7F]].iter().enumerate() {
                if quick && vi > 0 && off % 8 != 4 {
                    continue;
                }
                let ops: Vec<crate::case::CorruptOp> = (0..4).map(|b| crate::case::CorruptOp::Set { off: off + b, val: val[b] }).collect();
                for k in [5usize, 0] {
                    let mut c = target_case(t, k, &ops, "");
                    c.name = format!("{} [dword@{}={:02x}{:02x}{:02x}{:02x}]", c.name, off, val[0], val[1], val[2], val[3]);
                    cfg_cases.push(c);
                }
            }
        }
    }
    // the colour format field of every texture header set to each of the known formats (the data then
    // has the wrong length for its dimensions: odd sizes for 16-bit formats, a quarter for 32-bit)
    for t in targets.iter().filter(|t| t.bundled && t.cmd == "truanm") {
        let mut pos = 0;
        while let Some(i) = t.bytes[pos..].windows(4).position(|w| w == b"THTX") {
            let at = pos + i;
            pos = at + 4;
            if at + 16 > t.bytes.len() {
                break;
            }
            // two fields agreeing on an edge value: an empty texture (width or height 0 and size 0)
            for (tag, offs) in [("w=0,size=0", vec![8usize, 9, 12, 13, 14, 15]), ("h=0,size=0", vec![10, 11, 12, 13, 14, 15]), ("w=h=0,size=0", vec![8, 9, 10, 11, 12, 13, 14, 15])] {
                let ops: Vec<crate::case::CorruptOp> = offs.iter().map(|o| crate::case::CorruptOp::Set { off: at + o, val: 0 }).chain(std::iter::once(crate::case::CorruptOp::Trunc { at: at + 16 + 0 })).collect();
                // (the texture data itself is cut off only when the THTX is the last thing in the file)
                let ops: Vec<crate::case::CorruptOp> = if at + 16 + u32::from_le_bytes([t.bytes[at + 12], t.bytes[at + 13], t.bytes[at + 14], t.bytes[at + 15]]) as usize >= t.bytes.len() { ops } else { ops.into_iter().filter(|o| !matches!(o, crate::case::CorruptOp::Trunc { .. })).collect() };
                for k in [5usize, 6, 7, 0] {
                    let mut c = target_case(t, k, &ops, "");
                    c.name = format!("{} [thtx@{} {}]", c.name, at, tag);
                    cfg_cases.push(c);
                }
            }
            for fmt in [1u8, 3, 5, 7] {
                if t.bytes[at + 6] == fmt {
                    continue;
                }
                for k in [5usize, 6, 7, 8] {
                    let mut c = target_case(t, k, &[crate::case::CorruptOp::Set { off: at + 6, val: fmt }], "");
                    c.name = format!("{} [thtx@{} format={}]", c.name, at, fmt);
                    cfg_cases.push(c);
                }
            }
        }
    }
    // where the file lives relative to the working directory, with non-ASCII directory names: given by
    // absolute path from a sibling directory (names that diverge inside a multi-byte character, names
    // that share only their first byte, ASCII names), from below the working directory, from a parent
    for t in targets.iter().filter(|t| t.bundled && t.name.starts_with("b2b/")).step_by(if quick { 5 } else { 1 }) {
        for (tag, cwd, dir) in [
            ("sibling-cjk-diverging-inside-a-char", "東方紅魔郷", "東方神霊廟"),
            ("sibling-one-char-names", "紅", "神"),
            ("sibling-ascii", "work-a", "work-b"),
            ("below-cwd", "作業", "作業/下/位"),
            ("above-cwd", "上/中/下", "上"),
            ("emoji-and-combining", "e\u{301}🙂", "e\u{301}🙃"),
        ] {
            for k in [0usize, if t.cmd == "truanm" { 5 } else { 1 }] {
                let mut c = target_case(t, k, &[], "");
                let file = format!("{}/input.bin", dir);
                for i in c.inputs.iter_mut() {
                    if i.path == t.path {
                        i.path = file.clone();
                    }
                }
                for a in c.steps[0].argv.iter_mut() {
                    if *a == t.path {
                        *a = format!("{{ROOT}}/{}", file);
                    } else if a.starts_with("map/") || a.starts_with("mapfile-") {
                        *a = format!("{{ROOT}}/{}", a);
                    }
                }
                c.steps[0].env.push(("TRUSIM_CWD".into(), cwd.into()));
                c.name = format!("{} [config:path:{}]", c.name, tag);
                c.meta = json!({});
                cfg_cases.push(c);
            }
        }
    }
    // extract into a directory that already contains symbolic links where it wants to write:
    // a self-referential link, a two-link cycle, a dangling link, a link out of the directory, a link
    // to a regular directory.  Must terminate with success or an error (tarbomb protection), never hang.
    for t in targets.iter().filter(|t| t.bundled && t.name.starts_with("res/th12-embedded-image-source")) {
        let base = target_case(t, 5, &[], "");
        let variants: Vec<(&str, Vec<Input>)> = vec![
            ("self-link", vec![Input::symlink("extracted/lmao.png", "lmao.png")]),
            ("two-link-cycle", vec![Input::symlink("extracted/subdir", "other"), Input::symlink("extracted/other", "subdir")]),
            ("dangling-link", vec![Input::symlink("extracted/lmao.png", "nowhere/at/all.png")]),
            ("link-out-of-dir", vec![Input::symlink("extracted/subdir", "../outside"), Input::text("outside/.keep", "")]),
            ("link-to-dir", vec![Input::symlink("extracted/subdir", "realdir"), Input::text("extracted/realdir/.keep", "")]),
            ("file-where-dir-expected", vec![Input::text("extracted/subdir", "i am a file")]),
            ("link-to-file-target", vec![Input::symlink("extracted/lmao.png", "real.png"), Input::text("extracted/real.png", "old")]),
        ];
        for (name, extra_inputs) in variants {
            let mut c = base.clone();
            c.name = format!("{} [config:extract-into:{}]", base.name, name);
            c.meta = json!({});
            c.inputs.extend(extra_inputs);
            cfg_cases.push(c);
        }
    }
    let (_r, st_cfg, f_cfg, h_cfg) = par_map(ctx, &cfg_cases, |w, _, c| w.judge(c));
    stats.merge(st_cfg);
    findings.extend(f_cfg);
    herr.extend(h_cfg);
    findings.extend(f_p);
    herr.extend(h_p);

    // ---- read-time faults on the pristine bundled files (every command)
    let bundled: Vec<(usize, usize)> = targets.iter().enumerate().filter(|(_, t)| t.bundled).flat_map(|(ti, t)| (0..n_commands(t)).map(move |k| (ti, k))).collect();
    let bundled = if quick { thin(&bundled, 40, ctx.seed) } else { bundled };
    let (_r, st, f2, h2) = par_map(ctx, &bundled, |w, _, (ti, k)| {
        let t = &targets[*ti];
        let base = target_case(t, *k, &[], "");
        let g = w.golden(&base);
        if g.is_empty() {
            return;
        }
        let mut vs = enumerate_faults(0, &g[0], &FaultSpace { read_side: true, write_side: false, meta_side: true, budgets: Budgets::Boundaries, seed: 0 });
        vs.extend(noise_variants(0, true, false));
        if quick {
            // (the lying-size faults always run: there are two per stat call and they are cheap)
            let sizes: Vec<Variant> = vs.iter().filter(|v| v.tag.contains(":size=")).cloned().collect();
            vs = thin(&vs, 24, rng::mix(w.ctx.seed, &base.name, 3));
            for sv in sizes {
                if !vs.iter().any(|v| v.tag == sv.tag) {
                    vs.push(sv);
                }
            }
        }
        for v in vs {
            let plan = v.plan.as_ref().map(|p| p.1.clone()).unwrap_or_default();
            let mut case = target_case(t, *k, &[], &plan);
            case.name = format!("{} [{}]", case.name, v.tag);
            // (a read fault may hit a mapfile; the error then rightly names that file instead)
            case.meta = json!({});
            w.judge(&case);
        }
    });
    stats.merge(st);
    findings.extend(f2);
    herr.extend(h2);

    let mut extra = BTreeMap::new();
    extra.insert("targets".into(), json!(targets.len()));
    extra.insert("configuration_variants".into(), json!(cfg_cases.len()));
    extra.insert("bundled_targets".into(), json!(targets.iter().filter(|t| t.bundled).count()));
    extra.insert("single_fault_space_size".into(), json!(n_space));
    extra.insert("storage_faults_selected".into(), json!(n_selected));
    extra.insert("storage_fault_kinds_selected".into(), json!(kinds));
    let samples: Vec<_> = work.iter().step_by((work.len() / 3).max(1)).take(3).map(|(ti, vs)| json!({"target": targets[*ti].name, "command": target_case(&targets[*ti], vs[0].0, &[], "").steps[0].argv.join(" "), "corruption": vs[0].1.ops})).collect();
    CheckResult {
        property: "C16".into(),
        level: "fault_enumeration",
        stats,
        findings,
        harness_errors: herr,
        rule: "storage faults enumerated per target file (truncation at every offset; 8 byte values, 8 word values, 16 dword values per aligned offset; zero/dup/del blocks; torn mixes), header-weighted seed-rotated slice in quick, complete for bundled files <= 4 KiB in thorough (plus seeded double faults); each selected fault is fed to one of the commands (5 decompile option sets, extract, compile -i) in rotation; read-time faults (errno, short read, EINTR, chunking) on every read event of every command on the pristine bundled files; non-trivial = input corrupted or fault fired; distinct = (target, command, corruption/plan)".into(),
        samples,
        extra,
        exhaustive: false,
        assumptions: vec![
            "release profile (overflow checks off), as shipped".into(),
            "CPU budget 10 s (confirmed once at 60 s) stands for 'hang'; address-space budget 1 GiB stands for 'exhausts memory' (inputs are < 64 KiB)".into(),
        ],
    }
}
