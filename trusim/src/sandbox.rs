//! One worker's sandbox directory on tmpfs and the process runner: every simulated run is a fresh
//! process of the real `truth-core` binary with a cleared environment, the preload shim, resource
//! limits, and cwd = the sandbox.

use crate::case::Step;
use std::collections::{BTreeMap, HashMap};
use std::os::unix::fs::MetadataExt;
use std::os::unix::process::ExitStatusExt;
use std::path::{Path, PathBuf};
use std::process::{Command, Stdio};
use std::sync::Arc;

#[derive(Clone, Debug)]
pub struct Event {
    pub seq: i64, // -1 for uncounted (injected EINTR, getrandom)
    pub op: String,
    pub path: String,
    pub req: i64,
    pub ret: i64,
    pub errno: i32,
    pub injected: bool,
}

#[derive(Clone, Debug, Default)]
pub struct Outcome {
    pub exit: Option<i32>,
    pub signal: Option<i32>,
    pub stdout: Vec<u8>,
    pub stderr: Vec<u8>,
    /// files created or changed by this step (relative path -> content)
    pub files: BTreeMap<String, Vec<u8>>,
    pub events: Vec<Event>,
    pub trace_hash: u64,
    pub cpu_ms: u64,
}

impl Outcome {
    pub fn ok(&self) -> bool {
        self.exit == Some(0)
    }
    pub fn stderr_str(&self) -> String {
        String::from_utf8_lossy(&self.stderr).into_owned()
    }
}

pub struct Config {
    pub truth_bin: PathBuf,
    pub shim: PathBuf,
    pub repo: PathBuf,
    pub cpu_limit_s: u64,
    pub as_limit_bytes: u64,
}

#[derive(Clone, Copy, PartialEq)]
struct Stat {
    size: u64,
    mtime_ns: i128,
    ino: u64,
}

pub struct Sandbox {
    pub dir: PathBuf,
    log: PathBuf,
    /// what we believe is on disk: path -> (content hash, stat at time of writing)
    state: HashMap<String, (u64, Stat)>,
    pub runs: u64,
}

fn stat_of(p: &Path) -> Option<Stat> {
    let m = std::fs::symlink_metadata(p).ok()?;
    Some(Stat { size: m.len(), mtime_ns: m.mtime() as i128 * 1_000_000_000 + m.mtime_nsec() as i128, ino: m.ino() })
}

fn walk_files(dir: &Path, base: &Path, files: &mut Vec<String>, dirs: &mut Vec<String>) {
    let rd = match std::fs::read_dir(dir) {
        Ok(r) => r,
        Err(_) => return,
    };
    for e in rd.flatten() {
        let p = e.path();
        let rel = p.strip_prefix(base).unwrap().to_string_lossy().into_owned();
        let ft = match e.file_type() {
            Ok(t) => t,
            Err(_) => continue,
        };
        if ft.is_dir() {
            dirs.push(rel);
            walk_files(&p, base, files, dirs);
        } else {
            files.push(rel);
        }
    }
}

impl Sandbox {
    pub fn new(base: &Path, worker: usize) -> Sandbox {
        let dir = base.join(format!("w{:02}", worker));
        let _ = std::fs::remove_dir_all(&dir);
        std::fs::create_dir_all(&dir).expect("create sandbox");
        Sandbox { log: base.join(format!("w{:02}.log", worker)), dir, state: HashMap::new(), runs: 0 }
    }

    /// Make the sandbox contain exactly `files` (and no other file; stray empty directories that are
    /// not prefixes of a wanted file are removed too).
    pub fn reset(&mut self, files: &[(String, Arc<Vec<u8>>)]) {
        let want: HashMap<&str, &Arc<Vec<u8>>> = files.iter().map(|(p, d)| (p.as_str(), d)).collect();
        let mut present = vec![];
        let mut dirs = vec![];
        walk_files(&self.dir, &self.dir, &mut present, &mut dirs);
        let mut ok_present: std::collections::HashSet<String> = Default::default();
        for rel in present {
            let full = self.dir.join(&rel);
            let keep = match (want.get(rel.as_str()), self.state.get(&rel), stat_of(&full)) {
                (Some(data), Some((h, st)), Some(now)) => *st == now && *h == crate::rng::hash_bytes(data),
                _ => false,
            };
            if keep {
                ok_present.insert(rel);
            } else {
                let _ = std::fs::remove_file(&full);
                self.state.remove(&rel);
            }
        }
        // remove directories that no wanted file lives under (deepest first)
        dirs.sort_by(|a, b| b.len().cmp(&a.len()));
        for d in dirs {
            let prefix = format!("{}/", d);
            if !files.iter().any(|(p, _)| p.starts_with(&prefix)) {
                let _ = std::fs::remove_dir_all(self.dir.join(&d));
            }
        }
        for (rel, data) in files {
            if ok_present.contains(rel) {
                continue;
            }
            let full = self.dir.join(rel);
            if let Some(parent) = full.parent() {
                let _ = std::fs::create_dir_all(parent);
            }
            if data.starts_with(crate::case::SYMLINK_MARKER) {
                let target = String::from_utf8_lossy(&data[crate::case::SYMLINK_MARKER.len()..]).into_owned();
                let _ = std::fs::remove_file(&full);
                std::os::unix::fs::symlink(&target, &full).unwrap_or_else(|e| panic!("sandbox symlink {}: {}", full.display(), e));
            } else {
                std::fs::write(&full, data.as_slice()).unwrap_or_else(|e| panic!("sandbox write {}: {}", full.display(), e));
            }
            let st = stat_of(&full).unwrap();
            self.state.insert(rel.clone(), (crate::rng::hash_bytes(data), st));
        }
    }

    /// Put one more file into the sandbox (e.g. a previous step's captured stdout).
    pub fn put(&mut self, rel: &str, data: &[u8]) {
        let full = self.dir.join(rel);
        if let Some(parent) = full.parent() {
            let _ = std::fs::create_dir_all(parent);
        }
        std::fs::write(&full, data).expect("sandbox put");
        self.state.insert(rel.to_string(), (crate::rng::hash_bytes(data), stat_of(&full).unwrap()));
    }

    fn spawn_once(&mut self, cfg: &Config, step: &Step, cpu_s: u64) -> std::process::Output {
        let _ = std::fs::remove_file(&self.log);
        let mut cmd = Command::new(&cfg.truth_bin);
        // argv may name absolute paths inside the sandbox as "{ROOT}/..."; the pseudo-variable TRUSIM_CWD
        // (not passed on) makes a sub-directory of the sandbox the working directory
        let root = self.dir.to_string_lossy().into_owned();
        let cwd = step.env.iter().find(|(k, _)| k == "TRUSIM_CWD").map(|(_, v)| self.dir.join(v)).unwrap_or_else(|| self.dir.clone());
        let _ = std::fs::create_dir_all(&cwd);
        cmd.args(step.argv.iter().map(|a| a.replace("{ROOT}", &root))).current_dir(&cwd).env_clear();
        cmd.env("LD_PRELOAD", &cfg.shim).env("TRUSIM_ROOT", &self.dir).env("TRUSIM_LOG", &self.log).env("TRUSIM_KEY", step.key.to_string());
        if !step.plan.is_empty() {
            cmd.env("TRUSIM_PLAN", &step.plan);
        }
        for (k, v) in &step.env {
            if k != "TRUSIM_CWD" {
                cmd.env(k, v.replace("{ROOT}", &root));
            }
        }
        cmd.stdin(Stdio::null()).stderr(Stdio::piped());
        match &step.stdout_to {
            // models `truth-core ... > file`: fd 1 is a file in the sandbox, tracked (and faulted) by the shim
            Some(p) => {
                let full = self.dir.join(p);
                if let Some(parent) = full.parent() {
                    let _ = std::fs::create_dir_all(parent);
                }
                let f = std::fs::File::create(&full).expect("create stdout file");
                self.state.remove(p.as_str());
                cmd.stdout(f).env("TRUSIM_STDOUT", p);
            }
            None => {
                cmd.stdout(Stdio::piped());
            }
        }
        cmd.env("TRUSIM_CPU_S", cpu_s.to_string()).env("TRUSIM_AS_BYTES", cfg.as_limit_bytes.to_string());
        let child = cmd.spawn().unwrap_or_else(|e| panic!("spawn {}: {}", cfg.truth_bin.display(), e));
        self.runs += 1;
        child.wait_with_output().expect("wait")
    }

    /// Run one step in the sandbox as it is now; afterwards the step's outputs stay in place
    /// (and are recorded as known state, so that the next step's outputs can be told apart).
    ///
    /// CPU budget: in this kind of VM the CPU time charged to a process inflates by an order of
    /// magnitude when many processes start at once, so a run killed by SIGXCPU is *confirmed* before
    /// it counts as a hang: its partial outputs are removed and it is re-executed once, alone (under
    /// a process-wide lock), with six times the budget.  Only the confirmation's outcome is reported.
    pub fn run(&mut self, cfg: &Config, step: &Step) -> Outcome {
        let mut out = self.spawn_once(cfg, step, cfg.cpu_limit_s);
        // (once three hangs have been confirmed the tree is known to hang: later kills are believed)
        static CONFIRMED_HANGS: std::sync::atomic::AtomicUsize = std::sync::atomic::AtomicUsize::new(0);
        if matches!(out.status.signal(), Some(libc::SIGXCPU) | Some(libc::SIGKILL)) && CONFIRMED_HANGS.load(std::sync::atomic::Ordering::Relaxed) < 3 {
            static CONFIRM: std::sync::Mutex<()> = std::sync::Mutex::new(());
            let _g = CONFIRM.lock().unwrap_or_else(|e| e.into_inner());
            // (others may have been confirmed while this worker waited for the lock)
            let still_needed = CONFIRMED_HANGS.load(std::sync::atomic::Ordering::Relaxed) < 3;
            // remove partial outputs of the killed run (files that were not there before)
            let mut present = vec![];
            let mut dirs = vec![];
            if still_needed {
                walk_files(&self.dir, &self.dir, &mut present, &mut dirs);
            }
            let mut restorable = still_needed;
            for rel in present {
                match self.state.get(&rel) {
                    None => {
                        let _ = std::fs::remove_file(self.dir.join(&rel));
                    }
                    Some((_, st)) => {
                        if stat_of(&self.dir.join(&rel)) != Some(*st) {
                            restorable = false;
                        }
                    }
                }
            }
            if restorable {
                out = self.spawn_once(cfg, step, cfg.cpu_limit_s * 6);
                if matches!(out.status.signal(), Some(libc::SIGXCPU) | Some(libc::SIGKILL)) {
                    CONFIRMED_HANGS.fetch_add(1, std::sync::atomic::Ordering::Relaxed);
                }
            }
        }
        let mut o = Outcome { exit: out.status.code(), signal: out.status.signal(), stdout: out.stdout, stderr: out.stderr, ..Default::default() };
        // event log
        if let Ok(log) = std::fs::read(&self.log) {
            o.trace_hash = crate::rng::hash_bytes(&log);
            for line in String::from_utf8_lossy(&log).lines() {
                let f: Vec<&str> = line.split(' ').collect();
                if f.len() != 8 {
                    continue;
                }
                o.events.push(Event {
                    seq: f[0].parse().unwrap_or(-1),
                    op: f[1].to_string(),
                    path: f[3].to_string(),
                    req: f[4].parse().unwrap_or(0),
                    ret: f[5].parse().unwrap_or(0),
                    errno: f[6].parse().unwrap_or(0),
                    injected: f[7] == "inj",
                });
            }
        }
        // outputs: every file that is new or whose stat changed
        let mut present = vec![];
        let mut dirs = vec![];
        walk_files(&self.dir, &self.dir, &mut present, &mut dirs);
        present.sort();
        // (a file re-created with the same size within one timestamp tick would escape the stat
        // comparison, so every successful `creat` in the event log also marks its path as touched)
        let touched: std::collections::HashSet<&str> = o.events.iter().filter(|e| e.op == "creat" && e.ret >= 0).map(|e| e.path.as_str()).collect();
        for rel in present {
            let full = self.dir.join(&rel);
            let now = match stat_of(&full) {
                Some(s) => s,
                None => continue,
            };
            let changed = touched.contains(rel.as_str())
                || match self.state.get(&rel) {
                    Some((_, st)) => *st != now,
                    None => true,
                };
            if changed {
                // (outputs are capped by RLIMIT_FSIZE at 64 MiB; never slurp more than that)
                let data = match std::fs::metadata(&full) {
                    Ok(m) if m.len() > (65u64 << 20) => format!("<file of {} bytes not read>", m.len()).into_bytes(),
                    _ => std::fs::read(&full).unwrap_or_default(),
                };
                self.state.insert(rel.clone(), (crate::rng::hash_bytes(&data), now));
                o.files.insert(rel, data);
            }
        }
        // normalise the worker-specific sandbox root in text outputs
        let root = self.dir.to_string_lossy().into_owned();
        if !root.is_empty() {
            o.stdout = replace_bytes(&o.stdout, root.as_bytes(), b"<SANDBOX>");
            o.stderr = replace_bytes(&o.stderr, root.as_bytes(), b"<SANDBOX>");
            for v in o.files.values_mut() {
                if find(v, root.as_bytes()).is_some() {
                    *v = replace_bytes(v, root.as_bytes(), b"<SANDBOX>");
                }
            }
        }
        o
    }
}

fn find(h: &[u8], n: &[u8]) -> Option<usize> {
    if n.is_empty() || h.len() < n.len() {
        return None;
    }
    h.windows(n.len()).position(|w| w == n)
}

pub fn replace_bytes(h: &[u8], from: &[u8], to: &[u8]) -> Vec<u8> {
    if find(h, from).is_none() {
        return h.to_vec();
    }
    let mut out = Vec::with_capacity(h.len());
    let mut i = 0;
    while i < h.len() {
        if h[i..].starts_with(from) {
            out.extend_from_slice(to);
            i += from.len();
        } else {
            out.push(h[i]);
            i += 1;
        }
    }
    out
}
