//! A *case* is one fully expanded, replayable simulated scenario: the sandbox's initial files (with
//! storage corruptions), the command steps (argv, hash key, I/O fault plan, env), and the name of the
//! oracle that judges it.  Replay files are serialised cases; nothing in a case refers to the PRNG.

use crate::corpus::Corpus;
use serde::{Deserialize, Serialize};
use std::sync::Arc;

#[derive(Clone, Debug, Serialize, Deserialize, PartialEq)]
#[serde(tag = "op", rename_all = "lowercase")]
pub enum CorruptOp {
    /// file ends at `at`
    Trunc { at: usize },
    /// byte at `off` becomes `val`
    Set { off: usize, val: u8 },
    /// `len` bytes at `off` become zero
    Zero { off: usize, len: usize },
    /// the block [off, off+len) is stored twice
    Dup { off: usize, len: usize },
    /// the block [off, off+len) is lost
    Del { off: usize, len: usize },
    /// stray bytes appear at `off`
    Ins { off: usize, bytes: Vec<u8> },
    /// torn write: keep [0, at) of this file, continue with [at, ..) of another corpus file
    Torn { at: usize, other: String },
}

impl CorruptOp {
    pub fn apply(&self, data: &mut Vec<u8>, corpus: &Corpus) {
        match self {
            CorruptOp::Trunc { at } => data.truncate(*at),
            CorruptOp::Set { off, val } => {
                if *off < data.len() {
                    data[*off] = *val
                }
            }
            CorruptOp::Zero { off, len } => {
                for i in *off..(*off + *len).min(data.len()) {
                    data[i] = 0
                }
            }
            CorruptOp::Dup { off, len } => {
                if *off < data.len() {
                    let end = (*off + *len).min(data.len());
                    let blk = data[*off..end].to_vec();
                    let tail = data.split_off(end);
                    data.extend_from_slice(&blk);
                    data.extend_from_slice(&tail);
                }
            }
            CorruptOp::Del { off, len } => {
                if *off < data.len() {
                    let end = (*off + *len).min(data.len());
                    data.drain(*off..end);
                }
            }
            CorruptOp::Ins { off, bytes } => {
                let o = (*off).min(data.len());
                let tail = data.split_off(o);
                data.extend_from_slice(bytes);
                data.extend_from_slice(&tail);
            }
            CorruptOp::Torn { at, other } => {
                let o = corpus.tree.get(other).map(|a| a.as_slice().to_vec()).unwrap_or_default();
                data.truncate(*at);
                if *at < o.len() {
                    data.extend_from_slice(&o[*at..]);
                }
            }
        }
    }
}

#[derive(Clone, Debug, Serialize, Deserialize)]
#[serde(rename_all = "lowercase")]
pub enum Base {
    /// a file of /verif/corpus/tree, by repo-relative path
    Corpus(String),
    /// literal text
    Text(String),
    /// literal bytes (hex in the replay file)
    #[serde(with = "hexbytes")]
    Bytes(Vec<u8>),
    /// a whole corpus subtree copied to the same relative path (e.g. "map/"); `path` is ignored
    Tree(String),
    /// a symbolic link with this target (pre-existing file-system state)
    Symlink(String),
}

mod hexbytes {
    use serde::{Deserialize, Deserializer, Serializer};
    pub fn serialize<S: Serializer>(v: &Vec<u8>, s: S) -> Result<S::Ok, S::Error> {
        let mut out = String::with_capacity(v.len() * 2);
        for b in v {
            out.push_str(&format!("{:02x}", b));
        }
        s.serialize_str(&out)
    }
    pub fn deserialize<'de, D: Deserializer<'de>>(d: D) -> Result<Vec<u8>, D::Error> {
        let s = String::deserialize(d)?;
        Ok((0..s.len() / 2).map(|i| u8::from_str_radix(&s[2 * i..2 * i + 2], 16).unwrap_or(0)).collect())
    }
}

#[derive(Clone, Debug, Serialize, Deserialize)]
pub struct Input {
    pub path: String,
    pub base: Base,
    #[serde(default, skip_serializing_if = "Vec::is_empty")]
    pub corrupt: Vec<CorruptOp>,
}

impl Input {
    pub fn corpus(path: &str) -> Input {
        Input { path: path.to_string(), base: Base::Corpus(path.to_string()), corrupt: vec![] }
    }
    pub fn corpus_as(path: &str, src: &str) -> Input {
        Input { path: path.to_string(), base: Base::Corpus(src.to_string()), corrupt: vec![] }
    }
    pub fn text(path: &str, text: &str) -> Input {
        Input { path: path.to_string(), base: Base::Text(text.to_string()), corrupt: vec![] }
    }
    pub fn bytes(path: &str, b: Vec<u8>) -> Input {
        Input { path: path.to_string(), base: Base::Bytes(b), corrupt: vec![] }
    }
    pub fn symlink(path: &str, target: &str) -> Input {
        Input { path: path.to_string(), base: Base::Symlink(target.to_string()), corrupt: vec![] }
    }
    pub fn tree(prefix: &str) -> Input {
        Input { path: prefix.to_string(), base: Base::Tree(prefix.to_string()), corrupt: vec![] }
    }
}

#[derive(Clone, Debug, Serialize, Deserialize)]
pub struct Step {
    pub argv: Vec<String>,
    #[serde(default)]
    pub key: u64,
    #[serde(default, skip_serializing_if = "String::is_empty")]
    pub plan: String,
    #[serde(default, skip_serializing_if = "Vec::is_empty")]
    pub env: Vec<(String, String)>,
    /// where stdout goes: None = captured only; Some(path) = also stored as that sandbox file
    /// (models `truanm decompile ... > file`)
    #[serde(default, skip_serializing_if = "Option::is_none")]
    pub stdout_to: Option<String>,
    /// argv indices that are optional flags (the minimiser may drop them)
    #[serde(default, skip_serializing_if = "Vec::is_empty")]
    pub optional: Vec<usize>,
}

impl Step {
    pub fn new(argv: Vec<String>) -> Step {
        Step { argv, key: 1, plan: String::new(), env: vec![], stdout_to: None, optional: vec![] }
    }
}

#[derive(Clone, Debug, Serialize, Deserialize)]
pub struct Case {
    pub property: String,
    pub oracle: String,
    /// human-readable scenario name (corpus item id + variant description)
    pub name: String,
    pub inputs: Vec<Input>,
    pub steps: Vec<Step>,
    #[serde(default)]
    pub meta: serde_json::Value,
}

/// Content marker by which `materialise` tells the sandbox to create a symlink instead of a file.
pub const SYMLINK_MARKER: &[u8] = b"\x00TRUSIM-SYMLINK\x00";

/// Materialise the initial sandbox content of a case: (relative path, bytes) sorted by path.
pub fn materialise(inputs: &[Input], corpus: &Corpus) -> Vec<(String, Arc<Vec<u8>>)> {
    let mut out: std::collections::BTreeMap<String, Arc<Vec<u8>>> = Default::default();
    for inp in inputs {
        match &inp.base {
            Base::Tree(prefix) => {
                for (k, v) in corpus.tree_prefix(prefix) {
                    out.insert(k, v);
                }
            }
            base => {
                let mut data: Arc<Vec<u8>> = match base {
                    Base::Corpus(p) => corpus.tree.get(p).cloned().unwrap_or_else(|| panic!("corpus file missing: {}", p)),
                    Base::Text(t) => Arc::new(t.clone().into_bytes()),
                    Base::Bytes(b) => Arc::new(b.clone()),
                    Base::Symlink(target) => {
                        let mut v = SYMLINK_MARKER.to_vec();
                        v.extend_from_slice(target.as_bytes());
                        Arc::new(v)
                    }
                    Base::Tree(_) => unreachable!(),
                };
                if !inp.corrupt.is_empty() {
                    let mut d = data.as_ref().clone();
                    for op in &inp.corrupt {
                        op.apply(&mut d, corpus);
                    }
                    data = Arc::new(d);
                }
                out.insert(inp.path.clone(), data);
            }
        }
    }
    out.into_iter().collect()
}
