//! Observation helpers shared by all oracles: diagnostics parsing, termination classes,
//! observable tuples.

use crate::sandbox::{Config, Outcome};
use std::collections::BTreeMap;

#[derive(Clone, Debug, PartialEq)]
pub struct Diag {
    pub severity: String, // error | warning | bug | note | help
    pub title: String,
}

/// Parse codespan-reporting's plain rendering: a diagnostic starts at column 0 with
/// `error: ...`, `warning: ...`, `bug: ...` (optionally `error[code]:`).
pub fn diagnostics(stderr: &[u8]) -> Vec<Diag> {
    let mut out = vec![];
    for line in String::from_utf8_lossy(stderr).lines() {
        for sev in ["error", "warning", "bug", "note", "help"] {
            if let Some(rest) = line.strip_prefix(sev) {
                let rest = if rest.starts_with('[') { rest.splitn(2, ']').nth(1).unwrap_or("") } else { rest };
                if let Some(t) = rest.strip_prefix(": ").or_else(|| if rest == ":" { Some("") } else { None }) {
                    out.push(Diag { severity: sev.to_string(), title: t.to_string() });
                }
                break;
            }
        }
    }
    out
}

pub fn has_error(d: &[Diag]) -> bool {
    d.iter().any(|d| d.severity == "error")
}
pub fn has_warning(d: &[Diag]) -> bool {
    d.iter().any(|d| d.severity == "warning")
}

/// A violation found by an oracle.
#[derive(Clone, Debug)]
pub struct Violation {
    pub class: String,
    pub detail: String,
}

fn signame(s: i32) -> String {
    match s {
        libc::SIGSEGV => "SIGSEGV".into(),
        libc::SIGABRT => "SIGABRT".into(),
        libc::SIGXCPU => "SIGXCPU".into(),
        libc::SIGKILL => "SIGKILL".into(),
        libc::SIGBUS => "SIGBUS".into(),
        libc::SIGILL => "SIGILL".into(),
        libc::SIGFPE => "SIGFPE".into(),
        libc::SIGPIPE => "SIGPIPE".into(),
        n => format!("SIG{}", n),
    }
}

/// `panic:<file>:<trimmed source line>` — robust against line shifts in the current tree.
pub fn panic_class(cfg: &Config, stderr: &str) -> Option<String> {
    let idx = stderr.find("panicked at ")?;
    let rest = &stderr[idx + "panicked at ".len()..];
    let loc = rest.lines().next().unwrap_or("").trim_end_matches(':');
    // loc = path:line:col
    let mut parts = loc.rsplitn(3, ':');
    let _col = parts.next();
    let line: usize = parts.next().and_then(|l| l.parse().ok()).unwrap_or(0);
    let path = parts.next().unwrap_or(loc);
    let (shown, full) = if path.starts_with('/') {
        // dependency: .../registry/src/<index>/<crate>/<file>
        let short = match path.find("/registry/src/") {
            Some(i) => path[i + 14..].splitn(2, '/').nth(1).unwrap_or(path).to_string(),
            None => match path.find("/library/") {
                Some(i) => format!("rust{}", &path[i..]),
                None => path.to_string(),
            },
        };
        (short, std::path::PathBuf::from(path))
    } else {
        (path.to_string(), cfg.repo.join(path))
    };
    let text = std::fs::read_to_string(&full).ok().and_then(|s| s.lines().nth(line.saturating_sub(1)).map(|l| l.trim().to_string())).unwrap_or_default();
    let text: String = text.chars().take(80).collect();
    Some(format!("panic:{}:{}", shown, text))
}

/// O-term: the process ended by itself with exit code 0 or 1 and did not panic / abort / hang /
/// overflow its stack / report an internal error.
pub fn term_violations(cfg: &Config, o: &Outcome) -> Vec<Violation> {
    let mut v = vec![];
    let stderr = o.stderr_str();
    let head: String = stderr.chars().take(600).collect();
    if let Some(sig) = o.signal {
        let class = if stderr.contains("has overflowed its stack") {
            "signal:stack-overflow".to_string()
        } else if stderr.contains("memory allocation of") {
            "signal:alloc-failure".to_string()
        } else if sig == libc::SIGXCPU || sig == libc::SIGKILL {
            "signal:hang(SIGXCPU)".to_string()
        } else if sig == libc::SIGXFSZ {
            "signal:output-runaway(SIGXFSZ)".to_string()
        } else if let Some(pc) = panic_class(cfg, &stderr) {
            format!("{}(abort)", pc)
        } else {
            format!("signal:{}", signame(sig))
        };
        v.push(Violation { class, detail: head });
        return v;
    }
    if stderr.contains("panicked at ") {
        let class = panic_class(cfg, &stderr).unwrap_or_else(|| "panic:?".into());
        v.push(Violation { class, detail: head });
        return v;
    }
    match o.exit {
        Some(0) | Some(1) => {}
        other => v.push(Violation { class: format!("exitcode:{:?}", other), detail: head.clone() }),
    }
    let d = diagnostics(&o.stderr);
    if d.iter().any(|d| d.severity == "bug") || stderr.contains("Internal compiler error") {
        v.push(Violation { class: "diag:bug-severity".into(), detail: head });
    }
    v
}

/// O-diag: exit 1 <=> at least one error-severity diagnostic.
pub fn diag_violations(o: &Outcome) -> Vec<Violation> {
    let mut v = vec![];
    if o.signal.is_some() {
        return v;
    }
    let d = diagnostics(&o.stderr);
    let head: String = o.stderr_str().chars().take(600).collect();
    match o.exit {
        Some(0) if has_error(&d) => v.push(Violation { class: "diag:exit0-with-error".into(), detail: head }),
        Some(1) if !has_error(&d) => v.push(Violation { class: "diag:exit1-without-error".into(), detail: head }),
        _ => {}
    }
    v
}

/// "Every diagnostic renders (its source locations are valid)": each `┌─ FILE:LINE:COL` header must
/// name a file of the sandbox (or a `<builtin …>` pseudo-file), LINE must exist in it, COL must lie
/// within the line, and every quoted source line `N │ text` must be line N of that file.
/// `files`: sandbox-relative path -> content as the command saw it.
pub fn location_violations(o: &Outcome, files: &BTreeMap<String, Vec<u8>>) -> Vec<Violation> {
    let mut v = vec![];
    let text = o.stderr_str();
    let mut cur: Option<(String, Vec<String>)> = None; // (display name, lines)
    // the renderer expands tabs to tab stops; compare with every run of blanks collapsed to one space
    let expand = |l: &str| l.split(|c| c == ' ' || c == '\t').filter(|w| !w.is_empty()).collect::<Vec<_>>().join(" ");
    for line in text.lines() {
        let t = line.trim_start();
        if let Some(rest) = t.strip_prefix("┌─ ") {
            cur = None;
            // FILE:LINE:COL (FILE may contain ':')
            let mut it = rest.rsplitn(3, ':');
            let col: usize = it.next().and_then(|x| x.trim().parse().ok()).unwrap_or(0);
            let lno: usize = it.next().and_then(|x| x.trim().parse().ok()).unwrap_or(0);
            let name = it.next().unwrap_or("").to_string();
            if name.starts_with('<') && !name.starts_with("<SANDBOX>") {
                continue; // builtin pseudo-file
            }
            let key = name.strip_prefix("<SANDBOX>/").unwrap_or(&name).trim_start_matches("./").to_string();
            let content = match files.get(&key) {
                Some(c) => c,
                None => {
                    v.push(Violation { class: "diag:location-in-unknown-file".into(), detail: format!("diagnostic points into '{}', which is not a file the command was given", name) });
                    continue;
                }
            };
            let flines: Vec<String> = String::from_utf8_lossy(content).split('\n').map(|l| l.trim_end_matches('\r').to_string()).collect();
            if lno == 0 || lno > flines.len() {
                v.push(Violation { class: "diag:location-line-out-of-range".into(), detail: format!("{}:{}:{} but the file has {} lines", name, lno, col, flines.len()) });
                continue;
            }
            let width = flines[lno - 1].chars().count();
            if col == 0 || col > width + 1 {
                v.push(Violation { class: "diag:location-column-out-of-range".into(), detail: format!("{}:{}:{} but that line has {} characters", name, lno, col, width) });
            }
            cur = Some((name, flines));
            continue;
        }
        if let Some((name, flines)) = &cur {
            // quoted source line:  `NN │ text`
            if let Some((num, quoted)) = line.split_once(" │ ").or_else(|| line.split_once(" │")) {
                if let Ok(n) = num.trim().parse::<usize>() {
                    if n == 0 || n > flines.len() {
                        v.push(Violation { class: "diag:location-line-out-of-range".into(), detail: format!("{} quotes line {} of a {}-line file", name, n, flines.len()) });
                        continue;
                    }
                    let actual = &flines[n - 1];
                    let printable = actual.chars().all(|c| c == '\t' || (' '..='~').contains(&c));
                    // multi-line labels prefix the text with box-drawing gutters; compare the tail
                    if printable && !expand(quoted).trim_end().ends_with(expand(actual).trim_end()) {
                        v.push(Violation { class: "diag:quoted-line-mismatch".into(), detail: format!("{} line {}: diagnostic shows {:?}, file has {:?}", name, n, quoted, actual) });
                    }
                }
            }
        }
    }
    v.truncate(3);
    v
}

/// The observable tuple of a step, as a comparable value.
#[derive(Clone, Debug, PartialEq, Eq)]
pub struct Tuple {
    pub exit: Option<i32>,
    pub signal: Option<i32>,
    pub stdout: Vec<u8>,
    pub stderr: Vec<u8>,
    pub files: BTreeMap<String, Vec<u8>>,
}

impl Tuple {
    pub fn of(o: &Outcome) -> Tuple {
        Tuple { exit: o.exit, signal: o.signal, stdout: o.stdout.clone(), stderr: o.stderr.clone(), files: o.files.clone() }
    }
    /// name of the first observable that differs
    pub fn first_diff(&self, other: &Tuple) -> Option<String> {
        if self.exit != other.exit || self.signal != other.signal {
            return Some("exit".into());
        }
        if self.stderr != other.stderr {
            // first differing diagnostic block; its title with quoted names and numbers blanked,
            // so that the class does not depend on which of the competing entries came first
            let a = diag_blocks(&self.stderr);
            let b = diag_blocks(&other.stderr);
            let i = a.iter().zip(b.iter()).position(|(x, y)| x != y).unwrap_or(a.len().min(b.len()));
            let blk = a.get(i).or(b.get(i)).cloned().unwrap_or_default();
            let title = blk.lines().next().unwrap_or("").to_string();
            return Some(format!("stderr:{}", normalise_title(&title)));
        }
        if self.stdout != other.stdout {
            return Some("stdout".into());
        }
        for (k, v) in &self.files {
            match other.files.get(k) {
                Some(w) if v == w => {}
                Some(_) => return Some(format!("file:{}", k)),
                None => return Some(format!("file-missing:{}", k)),
            }
        }
        for k in other.files.keys() {
            if !self.files.contains_key(k) {
                return Some(format!("file-extra:{}", k));
            }
        }
        None
    }
}

/// Split rendered stderr into diagnostic blocks (a block starts at a severity line in column 0).
pub fn diag_blocks(stderr: &[u8]) -> Vec<String> {
    let mut out: Vec<String> = vec![];
    for line in String::from_utf8_lossy(stderr).lines() {
        let starts = ["error", "warning", "bug"].iter().any(|s| line.starts_with(s));
        if starts || out.is_empty() {
            out.push(String::new());
        }
        let last = out.last_mut().unwrap();
        last.push_str(line);
        last.push('\n');
    }
    out
}

pub fn normalise_title(t: &str) -> String {
    let mut out = String::new();
    let mut quote: Option<char> = None;
    for c in t.chars() {
        match quote {
            Some(q) => {
                if c == q {
                    quote = None;
                    out.push('_');
                }
            }
            None => {
                if c == '\'' || c == '`' || c == '"' {
                    quote = Some(c);
                } else if c.is_ascii_digit() {
                    if !out.ends_with('N') {
                        out.push('N');
                    }
                } else {
                    out.push(c);
                }
            }
        }
    }
    out.chars().take(60).collect()
}

pub fn short(s: &[u8], n: usize) -> String {
    String::from_utf8_lossy(s).chars().take(n).collect()
}
