//! Scenario builders: turn corpus items into fault-free base cases.

use crate::case::{Case, Input, Step};
use crate::corpus::{Corpus, Item};

pub const SRC: &str = "input.spec";
pub const OUT: &str = "out.bin";
pub const DBG: &str = "debug.json";
pub const DEC: &str = "decompiled.txt";
pub const OUT2: &str = "out2.bin";

fn s(x: &str) -> String {
    x.to_string()
}

fn mentions_resources(item: &Item) -> bool {
    let pat = "tests/integration/resources";
    item.source.as_deref().map_or(false, |t| t.contains(pat))
        || item.compile_args.iter().chain(item.decompile_args.iter()).any(|a| a.contains(pat))
        || item.mapfiles.iter().chain(&item.compile_mapfiles).chain(&item.decompile_mapfiles).any(|m| m.contains(pat))
        || item.path.as_deref().map_or(false, |p| p.contains(pat))
}

/// Inputs every scenario of `item` needs: the map directory, the resources directory if mentioned,
/// the item's own files.
pub fn base_inputs(item: &Item) -> Vec<Input> {
    let mut v = vec![Input::tree("map/")];
    if mentions_resources(item) {
        v.push(Input::tree("tests/integration/resources/"));
    }
    for (p, t) in &item.files {
        v.push(Input::text(p, t));
    }
    v
}

pub struct Mapfiles {
    pub inputs: Vec<Input>,
    pub args: Vec<String>,
}

fn mapfile_inputs(texts: &[&String], start: usize) -> Mapfiles {
    let mut m = Mapfiles { inputs: vec![], args: vec![] };
    for (i, t) in texts.iter().enumerate() {
        let name = format!("mapfile-{}", start + i + 1);
        m.inputs.push(Input::text(&name, t));
        m.args.push(s("-m"));
        m.args.push(name);
    }
    m
}

/// `<tool> compile` of a source item.  `extras`: also ask for debug info (and thecl defs for ANM).
pub fn compile_case(item: &Item, extras: bool) -> Case {
    let mut inputs = base_inputs(item);
    inputs.push(Input::text(SRC, item.source.as_deref().unwrap_or("")));
    let texts: Vec<&String> = item.mapfiles.iter().chain(item.compile_mapfiles.iter()).collect();
    let mf = mapfile_inputs(&texts, 0);
    inputs.extend(mf.inputs);
    let mut argv = vec![item.cmd.clone(), s("compile"), s("-g"), item.game.clone(), s(SRC), s("-o"), s(OUT)];
    argv.extend(mf.args);
    let opt_start = argv.len();
    argv.extend(item.compile_args.iter().cloned());
    let mut step = Step::new(argv);
    // flags among the item's own compile args are optional for the minimiser only if they are flags
    // without a value; keep it simple: none optional here
    let _ = opt_start;
    if extras {
        step.argv.push(s("--output-debug-info"));
        step.argv.push(s(DBG));
        if item.cmd == "truanm" {
            step.argv.push(s("--output-thecl-defs"));
            step.argv.push(s("defs.h"));
        }
    }
    Case { property: String::new(), oracle: String::new(), name: format!("compile:{}", item.id), inputs, steps: vec![step], meta: serde_json::json!({}) }
}

/// decompile step for the compiled output of a source item (uses the item's shared + decompile mapfiles)
pub fn decompile_step_for_source(item: &Item, input: &str, output: &str, extra_flags: &[&str], width: Option<u32>) -> Step {
    let mut argv = vec![item.cmd.clone(), s("decompile"), s("-g"), item.game.clone(), s(input), s("-o"), s(output)];
    let n_shared = item.mapfiles.len();
    for i in 0..n_shared {
        argv.push(s("-m"));
        argv.push(format!("mapfile-{}", i + 1));
    }
    for i in 0..item.decompile_mapfiles.len() {
        argv.push(s("-m"));
        argv.push(format!("mapfile-{}", n_shared + item.compile_mapfiles.len() + i + 1));
    }
    for a in &item.decompile_args {
        argv.push(a.clone());
    }
    // --ending / --mission given at compile time are needed to read the file back
    for a in &item.compile_args {
        if (a == "--ending" || a == "--mission") && !argv.contains(a) {
            argv.push(a.clone());
        }
    }
    let mut optional = vec![];
    for f in extra_flags {
        if !argv.iter().any(|a| a == f) {
            optional.push(argv.len());
            argv.push(s(f));
        }
    }
    if let Some(w) = width {
        argv.push(s("--max-columns"));
        argv.push(w.to_string());
    }
    let mut st = Step::new(argv);
    st.optional = optional;
    st
}

/// compile -> decompile -> recompile pipeline for a source item
pub fn source_roundtrip_case(item: &Item, flags: &[&str], width: Option<u32>) -> Case {
    let mut c = compile_case(item, false);
    // decompile-only mapfiles
    let n0 = item.mapfiles.len() + item.compile_mapfiles.len();
    for (i, t) in item.decompile_mapfiles.iter().enumerate() {
        c.inputs.push(Input::text(&format!("mapfile-{}", n0 + i + 1), t));
    }
    let dec = decompile_step_for_source(item, OUT, DEC, flags, width);
    // recompile: decompiled text, shared + decompile mapfiles (as the test harness does), same compile args
    let mut argv = vec![item.cmd.clone(), s("compile"), s("-g"), item.game.clone(), s(DEC), s("-o"), s(OUT2)];
    for i in 0..item.mapfiles.len() {
        argv.push(s("-m"));
        argv.push(format!("mapfile-{}", i + 1));
    }
    for i in 0..item.decompile_mapfiles.len() {
        argv.push(s("-m"));
        argv.push(format!("mapfile-{}", n0 + i + 1));
    }
    argv.extend(item.compile_args.iter().cloned());
    if item.cmd == "truanm" {
        argv.push(s("-i"));
        argv.push(s(OUT));
    }
    c.steps.push(dec);
    c.steps.push(Step::new(argv));
    c.name = format!("src-roundtrip:{} {:?} w={:?}", item.id, flags, width);
    c
}

pub fn msg_mode_flags(item: &Item) -> Vec<String> {
    item.tags.iter().filter(|t| *t == "--mission" || *t == "--ending").cloned().collect()
}

/// decompile (-> file) then compile for a bundled binary
pub fn binary_roundtrip_case(item: &Item, flags: &[&str], width: Option<u32>, use_mapfile: bool) -> Case {
    let path = item.path.clone().unwrap();
    let mut inputs = base_inputs(item);
    inputs.push(Input::corpus(&path));
    let mut argv = vec![item.cmd.clone(), s("decompile"), s("-g"), item.game.clone(), path.clone(), s("-o"), s(DEC)];
    argv.extend(msg_mode_flags(item));
    if use_mapfile {
        if let Some(m) = &item.mapfile {
            argv.push(s("-m"));
            argv.push(m.clone());
        }
    }
    let mut optional = vec![];
    for f in flags {
        optional.push(argv.len());
        argv.push(s(f));
    }
    if let Some(w) = width {
        argv.push(s("--max-columns"));
        argv.push(w.to_string());
    }
    let mut dec = Step::new(argv);
    dec.optional = optional;
    let mut argv2 = vec![item.cmd.clone(), s("compile"), s("-g"), item.game.clone(), s(DEC), s("-o"), s(OUT2)];
    argv2.extend(msg_mode_flags(item));
    if item.cmd == "truanm" {
        argv2.push(s("-i"));
        argv2.push(path.clone());
    }
    Case {
        property: String::new(),
        oracle: String::new(),
        name: format!("bin-roundtrip:{} {:?} w={:?} map={}", item.id, flags, width, use_mapfile),
        inputs,
        steps: vec![dec, Step::new(argv2)],
        meta: serde_json::json!({ "original": path }),
    }
}

/// Source items that can be compiled at all (have text).
pub fn source_items(corpus: &Corpus) -> Vec<&Item> {
    corpus.sources().filter(|i| i.source.is_some()).collect()
}

/// Turn `decompile ... -o FILE` into `decompile ... > FILE` (stdout redirected to a sandbox file).
pub fn decompile_to_stdout(step: &mut Step) {
    if let Some(i) = step.argv.iter().position(|a| a == "-o") {
        let file = step.argv[i + 1].clone();
        step.argv.drain(i..i + 2);
        step.optional = step.optional.iter().map(|&x| if x > i { x - 2 } else { x }).collect();
        step.stdout_to = Some(file);
    }
}
