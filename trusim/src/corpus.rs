//! The committed workload snapshot (/verif/corpus): bundled binaries, resources, mapfiles and the
//! source snippets harvested from the repository's `source_test!` invocations, plus the
//! hand-written competition set (corpus/extra.json).

use serde::{Deserialize, Serialize};
use std::collections::BTreeMap;
use std::path::{Path, PathBuf};
use std::sync::Arc;

#[derive(Clone, Debug, Serialize, Deserialize)]
pub struct Item {
    pub kind: String, // "source" | "binary"
    pub id: String,
    pub cmd: String,  // truanm | trustd | trumsg | truecl
    pub game: String, // th06 ...
    #[serde(default)]
    pub format: Option<String>,
    #[serde(default)]
    pub source: Option<String>,
    #[serde(default)]
    pub mapfiles: Vec<String>,
    #[serde(default)]
    pub compile_mapfiles: Vec<String>,
    #[serde(default)]
    pub decompile_mapfiles: Vec<String>,
    #[serde(default)]
    pub compile_args: Vec<String>,
    #[serde(default)]
    pub decompile_args: Vec<String>,
    #[serde(default)]
    pub path: Option<String>,
    #[serde(default)]
    pub mapfile: Option<String>,
    /// extra files (path -> text) that must exist in the sandbox (competition set)
    #[serde(default)]
    pub files: BTreeMap<String, String>,
    /// free-form tags: "competition", "mission", ...
    #[serde(default)]
    pub tags: Vec<String>,
}

#[derive(Deserialize)]
struct ItemsFile {
    items: Vec<Item>,
}

pub struct Corpus {
    pub items: Vec<Item>,
    /// repo-relative path -> content, for everything under corpus/tree
    pub tree: BTreeMap<String, Arc<Vec<u8>>>,
    pub root: PathBuf,
}

fn walk(dir: &Path, base: &Path, out: &mut BTreeMap<String, Arc<Vec<u8>>>) {
    let mut ents: Vec<_> = std::fs::read_dir(dir).expect("read corpus dir").map(|e| e.unwrap().path()).collect();
    ents.sort();
    for p in ents {
        if p.is_dir() {
            walk(&p, base, out);
        } else {
            let rel = p.strip_prefix(base).unwrap().to_string_lossy().into_owned();
            out.insert(rel, Arc::new(std::fs::read(&p).unwrap()));
        }
    }
}

impl Corpus {
    pub fn load(root: &Path) -> Corpus {
        let mut items: Vec<Item> = {
            let f: ItemsFile = serde_json::from_slice(&std::fs::read(root.join("items.json")).expect("corpus/items.json")).expect("parse items.json");
            f.items
        };
        let extra = root.join("extra.json");
        if extra.exists() {
            let f: ItemsFile = serde_json::from_slice(&std::fs::read(extra).unwrap()).expect("parse extra.json");
            items.extend(f.items);
        }
        let mut tree = BTreeMap::new();
        walk(&root.join("tree"), &root.join("tree"), &mut tree);
        Corpus { items, tree, root: root.to_owned() }
    }

    pub fn sources(&self) -> impl Iterator<Item = &Item> {
        self.items.iter().filter(|i| i.kind == "source")
    }
    pub fn binaries(&self) -> impl Iterator<Item = &Item> {
        self.items.iter().filter(|i| i.kind == "binary")
    }

    /// Tree files under a prefix, e.g. "map/".
    pub fn tree_prefix(&self, prefix: &str) -> Vec<(String, Arc<Vec<u8>>)> {
        self.tree.range(prefix.to_string()..).take_while(|(k, _)| k.starts_with(prefix)).map(|(k, v)| (k.clone(), v.clone())).collect()
    }
}
