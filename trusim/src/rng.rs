//! One integer decides everything: splitmix64-seeded xoshiro256**.

#[derive(Clone, Debug)]
pub struct Rng {
    s: [u64; 4],
}

pub fn splitmix(x: &mut u64) -> u64 {
    *x = x.wrapping_add(0x9E37_79B9_7F4A_7C15);
    let mut z = *x;
    z = (z ^ (z >> 30)).wrapping_mul(0xBF58_476D_1CE4_E5B9);
    z = (z ^ (z >> 27)).wrapping_mul(0x94D0_49BB_1331_11EB);
    z ^ (z >> 31)
}

/// Stable mixing of a seed with a label and an index (FNV-1a over the label, then splitmix).
pub fn mix(seed: u64, label: &str, idx: u64) -> u64 {
    let mut h: u64 = 0xcbf2_9ce4_8422_2325;
    for b in label.bytes() {
        h ^= b as u64;
        h = h.wrapping_mul(0x0000_0100_0000_01b3);
    }
    let mut x = seed ^ h.rotate_left(17) ^ idx.wrapping_mul(0xD6E8_FEB8_6659_FD93);
    let a = splitmix(&mut x);
    let b = splitmix(&mut x);
    a ^ b.rotate_left(32)
}

/// Stable 64-bit hash of bytes (FNV-1a + final avalanche); used for trace / tuple fingerprints.
pub fn hash_bytes(data: &[u8]) -> u64 {
    let mut h: u64 = 0xcbf2_9ce4_8422_2325;
    for &b in data {
        h ^= b as u64;
        h = h.wrapping_mul(0x0000_0100_0000_01b3);
    }
    let mut x = h;
    splitmix(&mut x)
}

impl Rng {
    pub fn new(seed: u64) -> Rng {
        let mut x = seed;
        Rng { s: [splitmix(&mut x), splitmix(&mut x), splitmix(&mut x), splitmix(&mut x)] }
    }
    pub fn next(&mut self) -> u64 {
        let r = self.s[1].wrapping_mul(5).rotate_left(7).wrapping_mul(9);
        let t = self.s[1] << 17;
        self.s[2] ^= self.s[0];
        self.s[3] ^= self.s[1];
        self.s[1] ^= self.s[2];
        self.s[0] ^= self.s[3];
        self.s[2] ^= t;
        self.s[3] = self.s[3].rotate_left(45);
        r
    }
    /// uniform in 0..n (n > 0)
    pub fn below(&mut self, n: u64) -> u64 {
        debug_assert!(n > 0);
        ((self.next() as u128 * n as u128) >> 64) as u64
    }
    pub fn range(&mut self, lo: u64, hi_incl: u64) -> u64 {
        lo + self.below(hi_incl - lo + 1)
    }
    pub fn chance(&mut self, num: u64, den: u64) -> bool {
        self.below(den) < num
    }
    pub fn pick<'a, T>(&mut self, xs: &'a [T]) -> &'a T {
        &xs[self.below(xs.len() as u64) as usize]
    }
    pub fn shuffle<T>(&mut self, xs: &mut [T]) {
        for i in (1..xs.len()).rev() {
            let j = self.below(i as u64 + 1) as usize;
            xs.swap(i, j);
        }
    }
}
